#!/bin/bash
# developer tool: confirm a seeded change in a scratch worktree of /repo HEAD: tests still pass, demo fails with it and passes without.
# usage: seedverify.sh /tmp/seedkeep/C01-1   -> prints one line, writes <dir>/verify.json
D=$1; N=$(basename $D); WT=/tmp/seedverify_$N
rm -f $D/verify.json; rm -rf $WT; git -C /repo worktree add --detach $WT HEAD -q || exit 9
cd $WT
if ! git apply --check $D/patch.rebased.diff 2>/dev/null; then echo "$N PATCH-DOES-NOT-APPLY"; git -C /repo worktree remove --force $WT; exit 1; fi
PYTHONPATH=$WT/src timeout 300 /venv/bin/python $D/demo.py > $D/demo.clean.log 2>&1; clean=$?
git apply $D/patch.rebased.diff
tests=$(PYTHONPATH=$WT/src /venv/bin/python -m pytest -q -p no:cacheprovider --timeout=900 -n 4 2>&1 | tail -1)
PYTHONPATH=$WT/src timeout 300 /venv/bin/python $D/demo.py > $D/demo.patched.log 2>&1; patched=$?
cd /; git -C /repo worktree remove --force $WT
echo "{\"seed\":\"$N\",\"tests_with_patch\":\"$tests\",\"demo_exit_clean\":$clean,\"demo_exit_patched\":$patched,\"repo_head\":\"$(git -C /repo rev-parse --short HEAD)\"}" > $D/verify.json
echo "$N clean=$clean patched=$patched :: $tests"
