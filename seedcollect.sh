#!/bin/bash
# developer tool: collect the seeds of property $1 from its agent worktree (round $2: 2 -> Cxx-3,4 in /tmp/seedkeep2; 3 -> Cxx-5,6 in
# /tmp/seedkeep3), verify them on /repo HEAD and run the quick check of the property against them.
P=$1; R=${2:-2}; K=/tmp/seedkeep$R; mkdir -p $K
for k in 1 2; do
  S=/tmp/seedwt/$P/seed_out/$k; [ -d $S ] || continue
  D=$K/$P-$((k+2*(R-1))); rm -rf $D; cp -r $S $D; cp $D/patch.diff $D/patch.rebased.diff
  /verif/seedverify.sh $D
  echo "  check: $(/verif/seedtest.sh $D $P | tail -1)"
done
git -C /repo worktree remove --force /tmp/seedwt/$P 2>/dev/null; rm -rf /tmp/seedwt/${P}_scratch
