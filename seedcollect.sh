#!/bin/bash
# developer tool: collect round-2 seeds of property $1 from its agent worktree, verify and test them. Names: Cxx-3, Cxx-4.
P=$1; mkdir -p /tmp/seedkeep2
for k in 1 2; do
  S=/tmp/seedwt/$P/seed_out/$k; [ -d $S ] || continue
  D=/tmp/seedkeep2/$P-$((k+2)); rm -rf $D; cp -r $S $D; cp $D/patch.diff $D/patch.rebased.diff
  /verif/seedverify.sh $D
  echo "  check: $(/verif/seedtest.sh $D $P | tail -1) $(grep -c VIOLATION /tmp/seedtest_replays 2>/dev/null)"
done
git -C /repo worktree remove --force /tmp/seedwt/$P 2>/dev/null; rm -rf /tmp/seedwt/${P}_scratch
