#!/bin/bash
# developer tool: run every registered check of a tier sequentially, print timing and exit codes
T=${1:-quick}
cd /verif
for i in $(seq -w 1 20); do
  s=$(date +%s)
  ./check C$i --tier $T > /tmp/runall.C$i.$T.log 2>&1; rc=$?
  e=$(date +%s)
  echo "C$i rc=$rc $((e-s))s $(grep -E "^\[C$i\] tier=" /tmp/runall.C$i.$T.log | tail -1)"
done
