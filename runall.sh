#!/bin/bash
# developer tool: run every registered check of a tier sequentially, print timing and exit codes
# usage: runall.sh quick|thorough ["05 17 20"]   (optional: which properties, in which order)
T=${1:-quick}
HERE="$(cd "$(dirname "${BASH_SOURCE[0]}")" && pwd)"
cd "$HERE"
for i in ${2:-$(seq -w 1 20)}; do
  s=$(date +%s)
  ./check C$i --tier $T > /tmp/runall.C$i.$T.log 2>&1; rc=$?
  e=$(date +%s)
  echo "C$i rc=$rc $((e-s))s $(grep -E "^\[C$i\] tier=" /tmp/runall.C$i.$T.log | tail -1)"
  grep -E "inconclusive  |VIOLATION|HARNESS-ERROR|KNOWN" /tmp/runall.C$i.$T.log | cut -c1-220 | head -12
done
