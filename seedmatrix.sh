#!/bin/bash
# developer tool: re-verify every seed (rounds 1 and 2) on the current /repo HEAD and run it against the quick check of its own
# property (plus extra checks listed in seedextra.txt as SEED:CHECK).  Output: /tmp/seedmatrix.out
out=${SEEDOUT:-/tmp/seedmatrix.out}; : > $out
for d in ${SEEDDIRS:-/tmp/seedkeep/* /tmp/seedkeep2/* /tmp/seedkeep3/*}; do
  n=$(basename $d); p=${n%-*}
  [ -f $d/patch.rebased.diff ] || continue
  v=$(/verif/seedverify.sh $d | head -1)
  if ! grep -q '"demo_exit_clean":0,"demo_exit_patched":1' $d/verify.json 2>/dev/null; then echo "$n INVALID-ON-HEAD ($v)" >> $out; continue; fi
  for c in $p $(grep "^$n:" /verif/seedextra.txt 2>/dev/null | cut -d: -f2); do
    r=$(/verif/seedtest.sh $d $c 2>&1 | tail -1)
    echo "$n $c $r" >> $out
  done
done
echo DONE >> $out
