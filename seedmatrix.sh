#!/bin/bash
# developer tool: run each kept seed against the quick check of its own property (and extra ones given as SEED:CHECK pairs)
out=/tmp/seedmatrix.out; : > $out
for d in /tmp/seedkeep/*; do
  n=$(basename $d); p=${n%-*}
  [ -f $d/verify.json ] || continue
  if ! grep -q '"demo_exit_clean":0,"demo_exit_patched":1' $d/verify.json; then echo "$n SKIP(not valid on current tree)" >> $out; continue; fi
  for c in $p $(grep "^$n:" /verif/seedextra.txt 2>/dev/null | cut -d: -f2); do
    r=$(/verif/seedtest.sh $d $c 2>&1 | tail -1)
    v=$(grep -c . /dev/null)
    echo "$n $c $r" >> $out
  done
done
echo DONE >> $out
