"""C07 - garbage collection fails closed.

E2 (symx), single collector (real GarbageCollector.collect) on a table with 3 retained snapshots (sharing
manifests), two live in-flight markers (a data file and a manifest of a transaction in progress) and orphans older
than the grace period - so a run that wrongly continues WOULD delete something live.
 F1  single fault: the k-th rig call of collect() raises (k symbolic, every position explored).
 F2  persistent damage: the solver picks one object (each manifest list / manifest / marker / listing) and the
     obligation fixes the damage class (missing, cut to an unparseable prefix, non-parsing bytes, failing on every
     access transiently or permanently, listing returning an escaping entry, stat failing)."""
import errno

from vf.oracles import reader
from vf.props.common import SCH
from vf.rigs.env import Env
from vf.rigs.fakes3 import cerr
from vf.rigs.world import fault_at
from vf.runner import Ob

LEVEL = "other"
TECHNIQUE = ('symx: symbolic fault position / solver-chosen damaged object over the real collector; fail-closed assertions per path; concrete replay')
EXPLANATION = (
    "Bounded symbolic execution (symx/z3) of the real collector with a symbolic fault position over its whole trace "
    "of storage calls, and with a solver-chosen damaged object for each damage class; per path the fail-closed "
    "assertions (nothing reachable or protected deleted; undecidable reachability => raise and delete nothing) are "
    "discharged and the decision tree is exhausted (complete for single faults / single damaged objects).")
RULE = "one case = one explored path = one fault position or one damaged object; non-trivial = z3 decided the position / object"
ASSUMPTIONS = [
    "a truncation that still parses as a shorter valid Avro file is outside the claim (the property says 'unparseable')",
    "all files are older than the grace period, so any file wrongly classified as orphan is in fact deleted (worst case)",
    "a damaged version pointer / a missing current metadata file resolve by recovery to an existing committed version (C10); "
    "they are not reachability inputs that must abort the run and are judged only by 'nothing reachable from what was resolved is deleted'",
    "FakeOS / FakeS3 semantics",
]
TRUSTED = ["z3 5.1", "vf.symx", "vf.rigs.fakeos / fakes3"]

GRACE = 1000


def _scene(e):
    """3 snapshots, an open transaction with a data file + a pending manifest (both marker-protected), orphans."""
    t = e.table(schema=SCH)
    t.append_records([{"a": 1}])
    t.append_records([{"a": 2}])
    t.append_records([{"a": 3}])
    to = e.table()
    tx = to.new_transaction()
    tx.begin()
    tx.append_data([{"a": 100}])
    st = t.storage
    pending = "metadata/manifests/manifest_pending_0001.avro"
    tx._register_inflight(pending)
    st.write_file(pending, b"pending-manifest-of-a-commit-in-progress")
    st.write_file("data/orphan_old.parquet", b"orphan")
    st.write_file("metadata/manifests/orphan_old.avro", b"orphan")
    e.world.clock.advance(10_000)
    with e.world.inspect():
        files = e.files()
    name, md = reader.current_metadata(files, loads=e.symjson.loads)
    md["__name__"] = name
    reach = reader.reachable(files, md)
    protected = {p for p in files if p.startswith("data/auto_") and p not in reach} | {pending}
    markers = sorted(p for p in files if p.startswith("metadata/inflight/"))
    lists = sorted({s["manifest_list"].lstrip("/") for s in md["snapshots"]})
    manifests = sorted(p for p in reach if p.startswith("metadata/manifests/manifest_") and p not in lists)
    return t, tx, files, md, reach, protected, markers, lists, manifests


def _judge(sp, e, tag, where, files0, reach, protected, raised, must_raise):
    with e.world.inspect():
        after = e.files()
    deleted = sorted(set(files0) - set(after))
    bad = sorted(p for p in deleted if p in reach)
    sp.require(not bad, f"{tag}: {where}: the collection ({'raised ' + raised if raised else 'returned'}) deleted files referenced by a retained "
               f"snapshot: {bad}", {"sig": f"{tag}:deleted-reachable"})
    badp = sorted(p for p in deleted if p in protected)
    sp.require(not badp, f"{tag}: {where}: the collection ({'raised ' + raised if raised else 'returned'}) deleted files protected by a live "
               f"in-flight marker: {badp}", {"sig": f"{tag}:deleted-protected"})
    if must_raise:
        sp.require(bool(raised), f"{tag}: {where}: reachability could not be decided but the collection did not raise (deleted {deleted})",
                   {"sig": f"{tag}:did-not-raise"})
        sp.require(not deleted, f"{tag}: {where}: the collection raised {raised} but had already deleted {deleted}", {"sig": f"{tag}:raised-after-deleting"})


def single_fault(sp, rig="L", kind="perm"):
    with Env(sp, rig=rig, clock="tick") as e:
        w = e.world
        t, tx, files0, md, reach, protected, markers, lists, manifests = _scene(e)

        def mk(label, info):
            if rig == "L":
                return OSError(errno.EIO, "injected I/O error")
            return cerr("AccessDenied" if kind == "perm" else "SlowDown", "Op", 403 if kind == "perm" else 503)

        k = sp.fresh_int("fault_at", 0, 400)
        st = fault_at(w, w.step + 1 + k, mk, when=lambda label, info: not label.endswith("<"))
        raised = None
        try:
            t.garbage_collect(grace_period_ms=GRACE)
        except Exception as ex:  # noqa
            raised = type(ex).__name__
        w.callbacks.clear()
        where = f"fault at '{st['label']} {(st['info'] or {}).get('path') or (st['info'] or {}).get('key') or ''}'" if st["fired"] else "no fault"
        sp.note("fault", where)
        sp.note("outcome", raised or "returned")
        sp.reach("ran")
        _judge(sp, e, f"{rig}:single:{kind}", where, files0, reach, protected, raised, must_raise=False)
        if not st["fired"]:
            with w.inspect():
                after = e.files()
            sp.require("data/orphan_old.parquet" not in after and "metadata/manifests/orphan_old.avro" not in after,
                       "non-vacuity: orphans older than the grace period survive an undisturbed collection", {"sig": "orphans-survive"})


DAMAGE = ["missing", "prefix", "garbage", "err_perm", "err_trans", "stat_fail", "read_fail"]


def damaged(sp, rig="L", family="lists", damage="missing"):
    with Env(sp, rig=rig, clock="tick") as e:
        w = e.world
        t, tx, files0, md, reach, protected, markers, lists, manifests = _scene(e)
        pool = {"lists": lists, "manifests": manifests, "markers": markers, "metadata": ["metadata/" + md["__name__"]]}[family]
        i = sp.choose(len(pool), name="target")
        target = pool[i]
        st = t.storage
        if damage.startswith("json_"):
            # the metadata file stays VALID JSON but one snapshot entry is damaged (a flipped character in a key / a value)
            import json as _json
            with w.inspect():
                doc = _json.loads(files0[target].decode())
                si = sp.choose(len(doc["snapshots"]), name="snapshot_index")
                snap = doc["snapshots"][si]
                if damage == "json_key_mangled":
                    snap["manifest_lisu"] = snap.pop("manifest_list")
                elif damage == "json_value_null":
                    snap["manifest_list"] = None
                elif damage == "json_value_empty":
                    snap["manifest_list"] = ""
                elif damage == "json_value_wrong":
                    snap["manifest_list"] = snap["manifest_list"][:-6] + "x.avro"
                st.write_file(target, _json.dumps(doc).encode())
                files0 = e.files()
        elif damage in ("missing", "prefix", "garbage"):
            with w.inspect():
                raw = files0[target]
                if damage == "missing":
                    st.delete_file(target)
                elif damage == "prefix":
                    cut = {"lists": 40, "manifests": 40, "markers": 5, "metadata": 60}[family]
                    st.write_file(target, raw[:cut])
                else:
                    st.write_file(target, b"\x00\xffnot-a-valid-file\x00" * 3)
            with w.inspect():
                files0 = e.files()
        else:
            def cb(w_, label, info, a):
                p = info.get("path") or info.get("key") or ""
                if not p.endswith(target) or label.endswith("<"):
                    return
                if damage == "stat_fail" and label not in ("stat", "head>"):
                    return
                if damage == "read_fail" and label in ("stat", "head>"):
                    return  # exists()/stat succeed, every READ of the object fails
                if rig == "L":
                    raise OSError(errno.EIO, "injected persistent I/O error")
                raise cerr("AccessDenied" if damage == "err_perm" else "InternalError", "Op", 403 if damage == "err_perm" else 500)
            w.callbacks.append(cb)
        raised = None
        try:
            t.garbage_collect(grace_period_ms=GRACE)
        except Exception as ex:  # noqa
            raised = type(ex).__name__
        w.callbacks.clear()
        sp.note("target", target)
        sp.note("outcome", raised or "returned")
        sp.reach("ran")
        must = family in ("lists", "manifests", "metadata") and damage != "stat_fail"
        # a marker whose payload is gone keeps protecting what it named: the file it names must survive
        _judge(sp, e, f"{rig}:{family}:{damage}", f"{target} {damage}", files0, reach, protected, raised, must_raise=must)


def listing(sp, rig="L", anomaly="raise"):
    with Env(sp, rig=rig, clock="tick") as e:
        w = e.world
        t, tx, files0, md, reach, protected, markers, lists, manifests = _scene(e)
        prefixes = ["data", "metadata/manifests", "metadata/inflight"]
        i = sp.choose(len(prefixes), name="prefix")
        pre = prefixes[i]
        st = t.storage
        real_list = st.list_files

        def fake_list(prefix):
            if prefix.rstrip("/") == pre:
                if anomaly == "raise":
                    raise OSError(errno.EIO, "injected listing failure") if rig == "L" else cerr("InternalError", "ListObjectsV2", 500)
                return real_list(prefix) + ["../outside/x.parquet"]
            return real_list(prefix)

        st.list_files = fake_list
        raised = None
        try:
            t.garbage_collect(grace_period_ms=GRACE)
        except Exception as ex:  # noqa
            raised = type(ex).__name__
        sp.note("prefix", pre)
        sp.note("outcome", raised or "returned")
        sp.reach("ran")
        tag = f"{rig}:listing:{anomaly}"
        _judge(sp, e, tag, f"listing of {pre} {anomaly}", files0, reach, protected, raised, must_raise=False)
        with w.inspect():
            after = e.files()
        deleted_here = sorted(p for p in set(files0) - set(after) if p.startswith(pre + "/"))
        if pre != "metadata/inflight":
            sp.require(bool(raised) and not deleted_here, f"{tag}: the listing of {pre} is not trustworthy but the collection "
                       f"{'deleted ' + str(deleted_here) if deleted_here else 'did not raise'}", {"sig": f"{tag}:untrusted-listing-used"})


def obligations(tier):
    obs = []
    T = 300 if tier == "quick" else 1200
    for rig in ("L", "S"):
        kinds = ["perm"] if rig == "L" else (["perm", "trans"] if tier == "thorough" else ["perm"])
        for kind in kinds:
            obs.append(Ob(f"single.{rig}.{kind}", "vf.props.c07:single_fault", {"rig": rig, "kind": kind, "_must_reach": ["ran"], "_sample_every": 30},
                          timeout=T, bounds=f"rig {rig}: every single fault position of one collection run, fault = {kind} error before effect", weight=5))
        fams = {"lists": ["missing", "prefix", "garbage", "err_perm", "err_trans", "read_fail"],
                "manifests": ["missing", "prefix", "garbage", "err_perm", "err_trans", "read_fail"],
                "markers": ["prefix", "garbage", "err_perm", "stat_fail"],
                "metadata": ["prefix", "garbage", "read_fail", "json_key_mangled", "json_value_null", "json_value_empty", "json_value_wrong"]}
        for fam, dmgs in fams.items():
            for d in dmgs:
                if tier == "quick" and rig == "S" and d in ("prefix", "err_trans"):
                    continue
                obs.append(Ob(f"damage.{rig}.{fam}.{d}", "vf.props.c07:damaged", {"rig": rig, "family": fam, "damage": d, "_must_reach": ["ran"]},
                              timeout=T, bounds=f"rig {rig}: each object of family '{fam}' (solver-chosen) damaged as '{d}'", weight=2))
        for an in ("raise", "escape"):
            obs.append(Ob(f"listing.{rig}.{an}", "vf.props.c07:listing", {"rig": rig, "anomaly": an, "_must_reach": ["ran"]}, timeout=T,
                          bounds=f"rig {rig}: listing of each GC-relevant prefix (solver-chosen) {'raises' if an == 'raise' else 'returns an entry outside the table'}",
                          weight=2))
    return obs
