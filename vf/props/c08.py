"""C08 - a stale lock holder or delayed pointer write cannot lose an update on S3.

E2 (symx) + baton threads on Rig S: the real MetadataManager.commit / S3StorageBackend.write_file_cas /
S3LockProvider (acquire, takeover, is_held, release) over FakeS3.  Solver variables: the schedule at S3-request
granularity INCLUDING the in-flight positions of every request on the pointer and the lock object (before the
server acts / after it acted), the virtual time that passes while an actor is paused (0..130 s, so the 60 s lease
can lapse), commit clock readings.  Lock providers: the real CAS lock, and a lock granting everyone."""
from vf.oracles import reader
from vf.props import c01
from vf.props.common import HINT, Model, outcome, pointer_flips, preload, protocol_points
from vf.rigs.env import Env
from vf.runner import Ob
from vf.sched import Sched

LEVEL = "other"
TECHNIQUE = ('symx: symbolic schedule incl. in-flight request positions and symbolic pause durations over the real S3 commit path and CAS lock on FakeS3; concrete replay')
EXPLANATION = (
    "Bounded symbolic execution (symx/z3) of the real S3 commit path under a baton scheduler with in-flight "
    "request positions and symbolic pause durations; serial-model and fencing assertions discharged per path, "
    "decision tree exhausted within the pre-emption bound; counterexamples replayed concretely.")
RULE = c01.RULE
ASSUMPTIONS = [
    "pre-emption bound K per obligation; scheduling points at every request on the pointer and lock objects (before / after the server acts) and at sleeps",
    "FakeS3: strongly consistent, conditional PUT (If-Match / If-None-Match), ETag = version counter, LastModified from the one global virtual clock",
    "the heartbeat is not an OS thread: quick tier = heartbeat starved (a paused process pauses it too); thorough tier adds it as an actor",
    "'lost its lock before the commit point' is judged at the committer's metadata-file write and at its LAST request preceding the pointer "
    "PUT (on a correct tree the fence read); a takeover after that last request but before the PUT is issued cannot be observed by any "
    "client and is made safe by the CAS",
]
TRUSTED = c01.TRUSTED


def s3_commit(sp, ops=("append", "append"), K=2, lock="grantall", pause_max_ms=0, heartbeat=False, clock="sym", hint_fault=False):
    with Env(sp, rig="S", clock=clock, clock_kw={"sites": {"mm"}, "maxd": 2, "budget": 10}, lock=lock) as e:
        w = e.world
        w.clock.mode = "tick"
        t0, snaps = preload(e, 2)
        w.clock.mode = clock
        ids = [s.snapshot_id for s in snaps]
        with w.inspect():
            files0 = e.files()
        name0, md0 = reader.current_metadata(files0, loads=e.symjson.loads)
        rows_of = {s["snapshot_id"]: set(reader.snapshot_rows(files0, s, "a")) for s in md0["snapshots"]}
        model = Model(ids, rows_of, ids[-1])
        flips_before = len(pointer_flips(e))
        handles = [e.table() for _ in ops]
        acts = []
        for i, kind in enumerate(ops):
            t = handles[i]
            if kind == "append":
                acts.append((lambda t=t, i=i: t.append_records([{"a": 10 + i}]), ("append", [10 + i])))
            elif kind == "delsnap":
                acts.append((lambda t=t: t.snapshot_manager.delete_snapshot(ids[0]), ("delete_snapshot", ids[0])))
            else:
                raise ValueError(kind)
        sc = Sched(sp, K=K, world=w, pause_max_ms=pause_max_ms)
        def points_with_metadata_write(label, info):
            # with pauses, TIME can pass at a request even if the request commutes with everything: the metadata-file PUT of a committer
            # is where a paused committer can lose its lease between "validated" and "fenced"
            k = info.get("key") or ""
            return protocol_points(label, info) or (label == "put>" and "/metadata/v" in "/" + k)
        w.yield_filter = points_with_metadata_write if pause_max_ms else protocol_points
        for i, (fn, _) in enumerate(acts):
            sc.spawn(i, lambda fn=fn: outcome(fn))
        if heartbeat:
            def hb():
                # renew every lease/3 while any provider believes it holds the lock (bounded rounds)
                import time as _t
                for _ in range(3):
                    for p in list(e.lock_providers):
                        if p.is_locked:
                            p._renew_once()
                    _t.sleep(20.0)
                return None
            sc.spawn(len(acts), hb)
        if hint_fault:
            # committer 0's pointer PUT may fail with a transient error BEFORE the server acts (request lost): nothing was written, the
            # client cannot know; whatever it does next (give up as ambiguous, retry ...) must not turn a rival's commit into "mine"
            from vf.rigs.fakes3 import cerr
            fst = {"armed": True}

            def lose_request(w_, label, info, a):
                if fst["armed"] and a == 0 and label == "put>" and (info.get("key") or "").endswith(HINT):
                    fst["armed"] = False
                    if sp.choose(2, name="pointer_put_request_lost"):
                        raise cerr("RequestTimeout", "PutObject", 500)
            w.callbacks.append(lose_request)
        w.sched = sc
        try:
            sc.run()
        finally:
            w.sched = None
        for tid, err in sc.errors.items():
            raise AssertionError(f"actor {tid} crashed in harness: {err!r}")
        res = {i: sc.results[i] for i in range(len(acts))}
        flips = pointer_flips(e)[flips_before:]
        trace = sc.trace_str()
        kinds = "+".join(ops)
        sp.note("schedule", trace)
        sp.note("outcomes", {i: res[i][0] for i in res})
        sp.reach("ran")
        for i, (fn, mop) in enumerate(acts):
            n = sum(1 for (_, a, _) in flips if a == i)
            if res[i][0] == "ok":
                sp.require(n == 1, f"acknowledged {ops[i]} by committer {i} advanced the pointer {n} times (schedule {trace})",
                           {"sig": f"acked-{ops[i]}-flips-{n}"})
            else:
                sp.require(n == 0, f"{ops[i]} by committer {i} raised {res[i][1]!r} but advanced the pointer {n} times (schedule {trace})",
                           {"sig": f"raised-{ops[i]}-{res[i][0]}-flips-{n}"})
        for (_, a, _) in flips:
            if a in res and res[a][0] == "ok":
                model.apply(acts[a][1])
        with w.inspect():
            files = e.files()
        name, md = reader.current_metadata(files, loads=e.symjson.loads)
        final_ids = [s["snapshot_id"] for s in md["snapshots"]]
        n_new = len([x for x in final_ids if x not in ids])
        exp_new = len([x for x in model.order if isinstance(x, tuple)])
        exp_old = [x for x in model.order if not isinstance(x, tuple)]
        sp.require([x for x in final_ids if x in ids] == exp_old and n_new == exp_new,
                   f"{kinds} lock={lock}: an acknowledged commit was overwritten: final chain has {n_new} new snapshot(s) and old "
                   f"{[ids.index(x) + 1 for x in final_ids if x in ids]}, serial application of the acknowledged commits gives {exp_new} new and "
                   f"old {[ids.index(x) + 1 for x in exp_old]} (outcomes {[res[i][0] for i in sorted(res)]}, schedule {trace})",
                   {"sig": f"{kinds}:{lock}:lost-update"})
        rows = reader.current_rows(files, "a", loads=e.symjson.loads)
        sp.require(rows == sorted(model.cur_rows()), f"{kinds} lock={lock}: final rows {rows} != serial model {sorted(model.cur_rows())} (schedule {trace})",
                   {"sig": f"{kinds}:{lock}:final-rows"})
        if lock == "real":
            # fencing: a committer whose lock object no longer carried its id when it wrote its metadata file must not be acknowledged
            lock_key = [k for k in e.s3.history if k.endswith(".locks/metadata.lock")]
            ids_ = {j: handles[j].metadata_manager.lock_provider.lock_id.encode() for j in res}

            def _owner(a, st):
                """whose lock a write of the lock object at step st is: the committer that issued it, or - for the heartbeat actor, which renews
                on behalf of whichever provider believes it holds the lock - the committer whose id the renewal carries"""
                if a in res:
                    return a
                body = e.s3.content_at(lock_key[0], st)
                for j, v in ids_.items():
                    if v == body:
                        return j
                return a
            for i in res:
                if res[i][0] != "ok":
                    continue
                my_id = handles[i].metadata_manager.lock_provider.lock_id.encode()
                my_flip = [st for (st, a, _) in flips if a == i][-1]
                writes = [st for (st, k, a, b, af) in e.s3.put_log if a == i and "/metadata/v" in "/" + k and st < my_flip]
                if not writes or not lock_key:
                    continue
                # ownership = which committer's request wrote the lock object last (two handles may even carry the same id text)
                last_writer = None
                for (st, k, a, b, af) in e.s3.put_log:
                    if k == lock_key[0] and st <= writes[-1]:
                        last_writer = _owner(a, st)
                deleted_after = [st for (st, body) in e.s3.history.get(lock_key[0], []) if body is None and st <= writes[-1]]
                still_there = e.s3.content_at(lock_key[0], writes[-1]) is not None
                sp.require(still_there and last_writer == i, f"{kinds}: committer {i} was acknowledged although the lock object was last written by "
                           f"committer {last_writer} (or released) when it wrote its metadata file, i.e. it had lost its lock before its commit point "
                           f"(schedule {trace})", {"sig": f"{kinds}:acked-without-lock"})
                # ... and the fence must be the LAST thing the committer does before it issues the pointer write: at its last own request
                # preceding the pointer PUT (on a correct tree: the fence read of the lock object) the lock must still be its own.  Any other
                # request in between (a metadata-file write, a listing ...) re-opens the window the fence exists to close.
                mine = [r for r in e.s3.req_log if r[3] == i and r[1].endswith(">")]
                hint_puts = [n for n, r in enumerate(mine) if r[1] == "put>" and r[2].endswith(HINT) and r[0] <= my_flip]
                if hint_puts and hint_puts[-1] > 0:
                    st_prev, lbl_prev, key_prev, _ = mine[hint_puts[-1] - 1]
                    lw = None
                    for (st, k, a, b, af) in e.s3.put_log:
                        if k == lock_key[0] and st <= st_prev:
                            lw = _owner(a, st)
                    there = e.s3.content_at(lock_key[0], st_prev) is not None
                    sp.require(there and lw == i, f"{kinds}: committer {i} was acknowledged although at its last request before the pointer write "
                               f"('{lbl_prev} {key_prev.rsplit('/', 1)[-1][:30]}') the lock object was last written by committer {lw} (or released): it lost its "
                               f"lock before the commit point and nothing re-checked ownership afterwards (schedule {trace})",
                               {"sig": f"{kinds}:acked-without-lock-at-last-request"})


def obligations(tier):
    obs = []
    T = 300 if tier == "quick" else 1500
    K = 2 if tier == "quick" else 3
    for ops in (("append", "append"), ("append", "delsnap")):
        obs.append(Ob(f"grantall.{'+'.join(ops)}.K{K}", "vf.props.c08:s3_commit", {"ops": list(ops), "K": K, "lock": "grantall", "_must_reach": ["ran"]},
                      timeout=T, bounds=f"2 committers {ops}, lock granting everyone, K={K}, in-flight positions of every pointer request",
                      weight=K * 3))
    obs.append(Ob(f"grantall.lostput.append+append.K{K}", "vf.props.c08:s3_commit", {"ops": ["append", "append"], "K": K, "lock": "grantall", "hint_fault": True,
                                                                                   "_must_reach": ["ran"]},
                  timeout=T, bounds=f"2 committers, lock granting everyone, K={K}; committer 0's pointer PUT may be lost before the server acts "
                                    f"(transient error, nothing written)", weight=K * 3))
    obs.append(Ob("reallock.pause.append+append.K2", "vf.props.c08:s3_commit",
                  {"ops": ["append", "append"], "K": 2, "lock": "real", "pause_max_ms": 130000, "_must_reach": ["ran"]}, timeout=T,
                  bounds="2 committers, real CAS lock (lease 60 s), symbolic pause 0..130 s at every pre-emption, K=2, heartbeat starved", weight=8))
    if tier == "thorough":
        obs.append(Ob("reallock.pause.append+delsnap.K3", "vf.props.c08:s3_commit",
                      {"ops": ["append", "delsnap"], "K": 3, "lock": "real", "pause_max_ms": 130000}, timeout=T,
                      bounds="2 committers, real CAS lock, symbolic pauses, K=3", weight=9))
        obs.append(Ob("reallock.heartbeat.append+append.K2", "vf.props.c08:s3_commit",
                      {"ops": ["append", "append"], "K": 2, "lock": "real", "pause_max_ms": 130000, "heartbeat": True}, timeout=T,
                      bounds="2 committers + heartbeat actor (3 renewal rounds), real CAS lock, symbolic pauses, K=2", weight=9, allow_inconclusive=True))
        obs.append(Ob("grantall.append+append+append.K2", "vf.props.c08:s3_commit", {"ops": ["append", "append", "append"], "K": 2, "lock": "grantall"},
                      timeout=T, bounds="3 committers, lock granting everyone, K=2", weight=9, allow_inconclusive=True))
    return obs
