"""C14 - reads fail closed: damaged or missing files raise, never yield partial rows.

E2 (symx) on Rig L and Rig S.  Table: 2 manifests / 3 data files reachable from the current snapshot.  Solver
choices: WHICH reachable file (metadata file, manifest list, each manifest, each data file), the damage (absent; cut to
an unparseable prefix at structural boundaries; replaced by non-parsing bytes; one byte flipped in a structural region;
swapped with a sibling data file; error on every access / on the k-th read call), per obligation the read API and
options.  HONEST SCOPE: Avro / Parquet parsing and SHA-256 run concretely in C; the solver's role here is choosing
file x damage x call index, i.e. the claim is exhaustive within that finite bound (what symbolic execution adds is
the pruning of infeasible combinations and the uniform counterexample / replay path)."""
import errno
import io

import fastavro

from vf.oracles import reader
from vf.props.c02 import APIS, read_api
from vf.props.common import HINT, SCH
from vf.rigs.env import Env
from vf.rigs.fakes3 import cerr
from vf.rigs.world import fault_at
from vf.runner import Ob

LEVEL = "other"
TECHNIQUE = ('symx as case-splitter over (reachable file x damage x position x API) on the real read paths; exhaustive within the finite bound (C parsers and SHA-256 run concretely)')
EXPLANATION = (
    "symx/z3 exploration of (reachable file x damage class x position) for every read API and option on both real "
    "backends (9 damage classes incl. inverted sixths of a file and a flipped key name in the metadata JSON; errors on the pointer "
    "read while an uncommitted version is on disk); each outcome must be an exception or exactly the undamaged answer; exhaustive within the finite "
    "bound (solver as case-splitter; C parsers and SHA-256 run concretely).")
RULE = "one case = one explored (file, damage, position) combination for one API; non-trivial = the solver chose the combination"
ASSUMPTIONS = [
    "a truncation that still parses as a shorter valid file is outside the claim ('unparseable prefix'); such cuts are detected with an independent parser and skipped",
    "'any change to the bytes is detected' rests on SHA-256 and is checked structurally (the bytes hashed are the bytes parsed) plus one flip per structural region",
    "with verification off, a damaged data file that still parses cannot be detected and is excluded",
    "transient single errors on S3 are masked by the retry layer (exact answer); on the local backend they surface as an exception",
]
TRUSTED = ["z3 5.1", "vf.symx", "rigs", "fastavro / pyarrow / hashlib"]

DAMAGES = ["absent", "prefix", "garbage", "flip", "region", "json_key", "swap", "err_always", "err_kth"]
NREGIONS = 6


def _scene(e):
    t = e.table(schema=SCH)
    t.append_records([{"a": 1}])
    with t.new_transaction() as tx:
        tx.append_data([{"a": 2}])
        tx.append_data([{"a": 3}])
        tx.append_data([{"a": 4}])
        tx.commit()
    # a partial delete: the survivors (rows 2, 3) are carried through a manifest REWRITE
    from vf.props.singleop import file_of_row, summarize
    with t.new_transaction() as tx:
        tx.delete_files([file_of_row(summarize(e), 4)])
        tx.commit()
    with e.world.inspect():
        files = e.files()
    name, md = reader.current_metadata(files, loads=e.symjson.loads)
    cur = [s for s in md["snapshots"] if s["snapshot_id"] == md["current_snapshot_id"]][0]
    mlist = cur["manifest_list"].lstrip("/")
    manifests = reader.snapshot_manifests(files, cur)
    datas = sorted(p for p, _ in reader.snapshot_files(files, cur))
    targets = [("metadata", "metadata/" + name), ("mlist", mlist)] + [("manifest", m) for m in manifests] + [("data", d) for d in datas]
    return t, files, targets


def _still_parses(kind, raw):
    try:
        if kind in ("mlist", "manifest"):
            list(fastavro.reader(io.BytesIO(raw)))
            return True
        if kind == "data":
            reader.pq.read_table(io.BytesIO(raw))
            return True
        if kind == "metadata":
            __import__("json").loads(raw.decode("utf-8"))
            return True
    except Exception:  # noqa
        return False
    return False


def damaged_read(sp, rig="L", api="scan", damage="absent"):
    with Env(sp, rig=rig, clock="tick") as e:
        w = e.world
        t, files, targets = _scene(e)
        tr = e.table()
        expected = read_api(e.table(), api)
        # the reading handle may already have read the table successfully before the damage happens (long-lived handle)
        warm = sp.choose(2, name="warm_handle")
        if warm:
            assert read_api(tr, api) == expected
        ti = sp.choose(len(targets), name="target")
        kind, target = targets[ti]
        st = tr.storage
        pos = None
        touched = {"n": 0}
        if damage == "swap":
            if kind != "data":
                sp.assume(False)
            sib = [p for k, p in targets if k == "data" and p != target][0]
            with w.inspect():
                a, b = files[target], files[sib]
                st.write_file(target, b)
                st.write_file(sib, a)
        elif damage in ("absent", "prefix", "garbage", "flip"):
            raw = files[target]
            with w.inspect():
                if damage == "absent":
                    st.delete_file(target)
                elif damage == "garbage":
                    st.write_file(target, b"\x00\x01\x02 this is not a valid file \xff" * 4)
                elif damage == "prefix":
                    cuts = [0, 3, 4, 17, len(raw) // 2, len(raw) - 9, len(raw) - 1]
                    pos = cuts[sp.choose(len(cuts), name="cut")]
                    if pos < 0 or pos >= len(raw) or _still_parses(kind, raw[:pos]):
                        sp.assume(False)
                    st.write_file(target, raw[:pos])
                else:
                    offs = [0, 5, len(raw) // 3, len(raw) // 2, len(raw) - 6, len(raw) - 1]
                    pos = offs[sp.choose(len(offs), name="flip_at")]
                    mutated = raw[:pos] + bytes([raw[pos] ^ 0x5A]) + raw[pos + 1:]
                    st.write_file(target, mutated)
                    if kind != "data" and _still_parses(kind, mutated):
                        # a flipped byte inside a metadata-plane file that still parses (e.g. inside a string): not 'unparseable'
                        sp.assume(False)
        elif damage == "region":
            # one sixth of a metadata-plane file's bytes inverted (damage INSIDE the file: header, schema, a record in the middle of
            # the block, the trailing sync marker ...); kept only when an independent parser rejects the result
            if kind == "data":
                sp.assume(False)
            raw = files[target]
            r = sp.choose(NREGIONS, name="region")
            lo, hi = len(raw) * r // NREGIONS, len(raw) * (r + 1) // NREGIONS
            pos = f"{lo}..{hi}"
            mutated = raw[:lo] + bytes(b ^ 0xFF for b in raw[lo:hi]) + raw[hi:]
            if _still_parses(kind, mutated):
                sp.assume(False)
            with w.inspect():
                st.write_file(target, mutated)
        elif damage == "json_key":
            # the metadata file stays valid JSON but ONE key name has a flipped bit (top level, current snapshot entry, schema entry):
            # as table metadata it no longer parses
            if kind != "metadata":
                sp.assume(False)
            import json as _json
            doc = _json.loads(files[target].decode())
            cur = [x for x in doc["snapshots"] if x["snapshot_id"] == doc["current_snapshot_id"]][0]
            holders = [("", doc), ("snapshots[cur].", cur)]
            if doc.get("schemas"):
                holders.append(("schemas[0].", doc["schemas"][0]))
            slots = [(pre, h, k) for pre, h in holders for k in sorted(h)]
            pre, h, k = slots[sp.choose(len(slots), name="key")]
            pos = pre + k
            h[k[:-1] + chr(ord(k[-1]) ^ 1)] = h.pop(k)
            with w.inspect():
                st.write_file(target, _json.dumps(doc).encode())
        else:
            def mk():
                return OSError(errno.EIO, "injected read error") if rig == "L" else cerr("InternalError", "GetObject", 500)
            if damage == "err_always":
                def cb(w_, label, info, a):
                    p = info.get("path") or info.get("key") or ""
                    if p.endswith(target) and label in ("open_r", "get>", "read"):
                        touched["n"] += 1
                        raise mk()
                w.callbacks.append(cb)
            else:
                kth = sp.fresh_int("kth_call", 0, 80)
                fault_at(w, w.step + 1 + kth, lambda l, i: mk(), when=lambda l, i: l in ("open_r", "get>", "read", "stat", "head>"))
        raised = None
        got = None
        try:
            got = read_api(tr, api)
        except Exception as ex:  # noqa
            raised = type(ex).__name__
        w.callbacks.clear()
        sp.note("target", f"{kind}:{target.rsplit('/', 1)[-1][:24]}")
        sp.note("damage", f"{damage}@{pos}{' (handle had read before)' if warm else ''}")
        sp.note("outcome", raised or got)
        sp.reach("ran")
        tag = f"{rig}:{api}:{damage}:{kind}"
        if raised is None:
            sp.require(got == expected, f"{tag}: {target} {damage}{'' if pos is None else '@' + str(pos)}: {api} returned {got} instead of raising "
                       f"(undamaged answer {expected})", {"sig": f"{api}:{damage}:{kind}:{'older-snapshot' if kind == 'metadata' and damage == 'absent' else 'wrong-answer'}"
                                                          + (f":{pos}" if damage == "json_key" else "")})
            # returning the exact answer is fine only when the damage is outside what this read touches or was masked
            needs = kind in ("metadata", "mlist", "manifest") or (kind == "data" and api != "row_count")
            if damage in ("absent", "prefix", "garbage") and needs:
                sp.require(False, f"{tag}: {target} is {damage} yet {api} answered {got} without raising", {"sig": f"{api}:{damage}:{kind}:answered-despite-damage"})
            if damage == "flip" and kind == "data" and api not in ("row_count", "scan_noverify"):
                sp.require(False, f"{tag}: a flipped byte at offset {pos} of {target} went undetected with checksum verification on",
                           {"sig": f"{api}:flip:data:undetected"})
            if damage == "swap" and api not in ("row_count", "scan_noverify"):
                sp.require(False, f"{tag}: data file swapped with its sibling went undetected with checksum verification on", {"sig": f"{api}:swap:undetected"})


def hint_read_error(sp, rig="L", api="scan", mode="kth"):
    """The pointer itself cannot be read (every read / only the k-th read of it fails) while an UNCOMMITTED metadata file of a higher
    version is on disk (left by a commit interrupted at its pointer write - it never became current).  A read must raise or answer
    from the committed version; it must not fall back to 'the highest version on disk'."""
    with Env(sp, rig=rig, clock="tick") as e:
        w = e.world
        t, files, targets = _scene(e)
        expected = read_api(e.table(), api)
        st = {"armed": True}

        def interrupt(w_, label, info, a):
            if st["armed"] and (info.get("path") or info.get("key") or "").endswith(HINT) and label in ("replace", "put>"):
                st["armed"] = False
                raise KeyboardInterrupt()
        w.callbacks.append(interrupt)
        try:
            t.append_records([{"a": 50}])
        except KeyboardInterrupt:
            pass
        w.callbacks.clear()
        if rig == "S":
            w.clock.advance(61_000)
        tr = e.table()
        assert read_api(tr, api) == expected
        kth = sp.fresh_int("kth_hint_read", 0, 12) if mode == "kth" else None
        seen = {"n": 0, "fired": 0}

        def cb(w_, label, info, a):
            p = info.get("path") or info.get("key") or ""
            if not p.endswith(HINT) or label not in ("open_r", "get>", "read", "stat", "head>"):
                return
            hit = True if mode == "always" else bool(seen["n"] == kth)
            seen["n"] += 1
            if hit:
                seen["fired"] += 1
                raise OSError(errno.EIO, "injected pointer read error") if rig == "L" else cerr("InternalError", "GetObject", 500)
        w.callbacks.append(cb)
        raised = got = None
        try:
            got = read_api(tr, api)
        except Exception as ex:  # noqa
            raised = type(ex).__name__
        w.callbacks.clear()
        sp.note("outcome", raised or got)
        sp.note("pointer_read_errors", seen["fired"])
        sp.reach("ran")
        if raised is None:
            sp.require(got == expected, f"{rig}:{api}: the pointer could not be read ({mode}) and {api} answered {got} - the content of a version that "
                       f"never became current - instead of raising or answering {expected}", {"sig": f"{api}:hint-read-error:uncommitted-version-surfaced"})


def obligations(tier):
    obs = []
    T = 300 if tier == "quick" else 1200
    for rig in ("L", "S"):
        for api in (APIS if tier == "thorough" else ["scan", "row_count", "scan_batches"]):
            for mode in ("kth", "always"):
                obs.append(Ob(f"hint.{rig}.{api}.{mode}", "vf.props.c14:hint_read_error", {"rig": rig, "api": api, "mode": mode, "_must_reach": ["ran"]}, timeout=T,
                              bounds=f"rig {rig}, API {api}: {'the k-th (symbolic)' if mode == 'kth' else 'every'} read of the pointer fails while an "
                                     f"uncommitted higher-version metadata file is on disk", weight=2))
    rigs = ["L", "S"]
    for rig in rigs:
        for api in APIS:
            dmgs = DAMAGES
            if tier == "quick" and rig == "S":
                dmgs = ["absent", "garbage", "region", "err_always"]
            for d in dmgs:
                obs.append(Ob(f"read.{rig}.{api}.{d}", "vf.props.c14:damaged_read", {"rig": rig, "api": api, "damage": d, "_must_reach": ["ran"]},
                              timeout=T, bounds=f"rig {rig}, API {api}, damage {d} applied to each reachable file (metadata file, manifest list, "
                                                f"2 manifests, 3 data files; solver-chosen) at each listed position", weight=2))
    return obs
