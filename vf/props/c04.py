"""C04 - a failed, interrupted or ambiguous commit never damages committed data.

E2 (symx), single committer.  Solver variables: the fault position k (every rig call of the operation, INCLUDING
lock release and marker cleanup), optionally a second fault position.  Fixed per obligation: fault kind
(exception before effect: OSError / permanent or transient ClientError; exception AFTER effect (object storage);
asynchronous KeyboardInterrupt / SystemExit at the step boundary), operation kind, call style, backend
(Rig L, Rig S with CAS, Rig S without CAS)."""
import errno

from vf.oracles import reader
from vf.props.common import SCH, pointer_flips
from vf.props.singleop import all_snapshots_readable, is_post, is_pre, min_prior, setup, summarize
from vf.rigs.env import Env
from vf.rigs.fakes3 import cerr
from vf.rigs.world import fault_at
from vf.runner import Ob

LEVEL = "other"
TECHNIQUE = ('symx: symbolic fault position(s) over the complete call trace of each real commit, per fault kind / call style / backend; concrete replay')
EXPLANATION = (
    "Bounded symbolic execution (symx/z3) of every commit type with a symbolic fault position over its complete "
    "trace of storage calls (complete for single faults; selected double faults in the thorough tier), for each "
    "fault kind, call style and backend; the outcome/state contract is asserted per path and the tree exhausted.")
RULE = "one case = one explored path = one fault position (pair) of one (operation, fault kind, call style, backend); non-trivial = z3 decided the position"
ASSUMPTIONS = [
    "faults and interrupts occur at rig step boundaries (before a call takes effect, or - object storage - after the server acted); "
    "asynchronous exceptions between byte-codes elsewhere and faults inside pyarrow's encoder are outside the claim",
    "a failing stat() reads as 'does not exist' (os.path.exists semantics)",
    "table with 2 prior snapshots (3 for expire); single writer",
]
TRUSTED = ["z3 5.1", "vf.symx", "vf.rigs.fakeos / fakes3"]


def _run(e, t, op, ctx, style):
    """Run `op` in the given call style; returns the API result."""
    def body(tx):
        if op == "append":
            tx.append_data([{"a": 100}])
        elif op == "append2":
            tx.append_data([{"a": 100}])
            tx.append_data([{"a": 101}])
        elif op == "delete":
            tx.delete_files([ctx["victim"]])
        elif op == "replace":
            tx.append_data([{"a": 100}])
            tx.delete_files([ctx["victim"]])
        elif op == "expire":
            tx.expire_snapshots(ctx["cutoff"])
        elif op == "append_expire":
            tx.append_data([{"a": 100}])
            tx.expire_snapshots(ctx["cutoff"])
        else:
            raise ValueError(op)

    if op == "delsnap_cur":
        return t.snapshot_manager.delete_snapshot(ctx["cur"])
    if style == "ctx":
        with t.new_transaction() as tx:
            body(tx)
            return tx.commit()
    tx = t.new_transaction()
    tx.begin()
    try:
        body(tx)
        return tx.commit()
    except BaseException:
        tx.rollback()
        raise


def faulty(sp, rig="L", cas=True, op="append", kind="pre", style="ctx", double=False, n_prior=2):
    with Env(sp, rig=rig, cas=cas, clock="tick") as e:
        w = e.world
        t, pre, ctx = setup(e, op, max(n_prior, min_prior(op)))
        md = t.metadata_manager.refresh()
        ctx["cur"] = md.current_snapshot_id
        ctx["cutoff"] = md.snapshots[1].timestamp_ms if len(md.snapshots) > 1 else 0
        with w.inspect():
            files_pre = set(e.files())

        def mk(label, info):
            after = label.endswith("<")
            if kind == "ki":
                return KeyboardInterrupt()
            if kind == "se":
                return SystemExit(1)
            if rig == "L":
                return OSError(errno.EIO, "injected I/O error")
            if kind == "post":
                return cerr("RequestTimeout", "Op", 500)
            if kind == "trans":
                return cerr("SlowDown", "Op", 503)
            return cerr("AccessDenied", "Op", 403)

        def when(label, info):
            after = label.endswith("<")
            if kind == "post":
                return after
            return not after

        k = sp.fresh_int("fault_at", 0, 700)
        base = w.step
        st = fault_at(w, base + 1 + k, mk, when=when)
        st2 = None
        if double:
            k2 = sp.fresh_int("fault2_at", 0, 700)
            sp.assume(k2 > k)
            if kind in ("ki", "se"):
                # second fault after an asynchronous interrupt: a STORAGE error while the interrupted call unwinds (rollback, marker cleanup,
                # lock release).  A second asynchronous interrupt landing inside the clean-up handler of the first is outside the claim: no
                # Python code can protect every statement of its own `finally` blocks against that.
                st2 = fault_at(w, base + 1 + k2, lambda l, i: (OSError(errno.EIO, "injected I/O error") if rig == "L" else cerr("AccessDenied", "Op", 403)),
                               when=lambda l, i: not l.endswith("<"))
            else:
                st2 = fault_at(w, base + 1 + k2, mk, when=when)
        flips0 = len(pointer_flips(e))
        result = exc = None
        try:
            result = _run(e, t, op, ctx, style)
        except BaseException as ex:  # noqa  (KeyboardInterrupt / SystemExit / storage errors)
            from vf.symx import PathAbort
            from vf.rigs.world import Killed
            if isinstance(ex, (PathAbort, Killed)):
                raise
            exc = ex
        w.callbacks.clear()
        fired = st["fired"]
        where = f"{st['label']} {(st['info'] or {}).get('path') or (st['info'] or {}).get('key') or ''}" if fired else "no fault"
        sp.note("fault", where)
        sp.note("outcome", "ok" if exc is None else type(exc).__name__)
        sp.reach("after-op")
        flipped = len(pointer_flips(e)) > flips0
        tag = f"{rig}{'' if cas else '-nocas'}:{op}:{kind}:{style}"
        try:
            obs = summarize(e)
        except reader.Unreadable as ex:
            sp.require(False, f"{tag}: fault at '{where}' ({'raised ' + type(exc).__name__ if exc else 'returned'}): table unreadable: {ex}",
                       {"sig": f"{tag}:unreadable"})
            return
        okpre, okpost = is_pre(pre, obs), is_post(pre, obs, op)
        err = all_snapshots_readable(obs)
        sp.require(err is None, f"{tag}: fault at '{where}' ({'raised ' + type(exc).__name__ if exc else 'returned'}): a file referenced by a retained "
                   f"snapshot is gone: {err}", {"sig": f"{tag}:referenced-file-missing"})
        if exc is None:
            sp.require(okpost, f"{tag}: fault at '{where}': the call reported success but the table is not in the post-state "
                       f"(snapshots {len(obs.snaps)} vs {len(pre.snaps)} before, rows {obs.rows})", {"sig": f"{tag}:success-not-post"})
        else:
            sp.require(okpre or okpost, f"{tag}: fault at '{where}': raised {type(exc).__name__} and left neither pre nor post state "
                       f"(snapshots {len(obs.snaps)} vs {len(pre.snaps)} before, rows {obs.rows})", {"sig": f"{tag}:neither"})
            clean = kind in ("pre", "trans") and fired and not (double and st2["fired"])
            if clean and not flipped:
                sp.require(okpre, f"{tag}: clean storage error at '{where}' before the commit point but the table is not in the pre-state",
                           {"sig": f"{tag}:clean-error-not-pre"})
            if type(exc).__name__ == "AmbiguousCommitError":
                # no file written by the transaction may have been deleted
                with w.inspect():
                    now = set(e.files())
                lost = sorted(p for p in (reader.reachable(obs.files, obs.md) if obs.md else set()) if p not in now)
                sp.require(not lost, f"{tag}: ambiguous outcome but files were deleted: {lost}", {"sig": f"{tag}:ambiguous-deleted"})
        # the table stays readable and writable
        if rig == "S":
            w.clock.advance(61_000)
        try:
            t2 = e.table()
            rows = sorted(r["a"] for r in t2.scan())
            t2.append_records([{"a": 999}])
            rows2 = sorted(r["a"] for r in t2.scan())
        except Exception as ex:  # noqa
            sp.require(False, f"{tag}: fault at '{where}': the table is no longer readable/writable afterwards: {type(ex).__name__}: {ex}",
                       {"sig": f"{tag}:not-writable-after:{type(ex).__name__}"})
            return
        sp.require(rows == (obs.rows or []) and rows2 == sorted(rows + [999]), f"{tag}: follow-up rows {rows} -> {rows2}", {"sig": f"{tag}:followup-rows"})


def reuse(sp, rig="S", kind1="post", kind2="pre"):
    """ONE Transaction object used for two commits in a row (begin / append / commit, then begin / append / commit again), a fault in
    each: whatever the first commit's fate (clean failure, ambiguous, interrupted after the pointer flip), the second one's failure
    handling must not touch files the first one made reachable."""
    with Env(sp, rig=rig, clock="tick") as e:
        w = e.world
        t, pre, ctx = setup(e, "append", 2)

        def mk_for(kind):
            def mk(label, info):
                if kind == "ki":
                    return KeyboardInterrupt()
                if rig == "L":
                    return OSError(errno.ENOSPC, "injected: no space left on device")
                if kind == "post":
                    return cerr("RequestTimeout", "Op", 500)
                return cerr("AccessDenied", "Op", 403)
            return mk

        from vf.props.common import HINT

        def when_for(kind, only_pointer=False):
            def when(label, info):
                if only_pointer and not (info.get("path") or info.get("key") or "").endswith(HINT):
                    return False
                return label.endswith("<") if kind == "post" else not label.endswith("<")
            return when
        k1 = sp.fresh_int("fault1_at", 0, 400)
        k2 = sp.fresh_int("fault2_at", 0, 400)
        tx = t.new_transaction()
        outcomes = []
        for n, (k, kind, row) in enumerate(((k1, kind1, 100), (k2, kind2, 200))):
            # (the first fault is placed on the calls that touch the POINTER - where a commit's fate becomes ambiguous / interrupted past
            #  the commit point; every position of the second commit is explored)
            st = fault_at(w, w.step + 1 + k, mk_for(kind), when=when_for(kind, only_pointer=(n == 0)))
            try:
                tx.begin()
                tx.append_data([{"a": row}])
                tx.commit()
                outcomes.append("ok")
            except BaseException as ex:  # noqa
                from vf.symx import PathAbort
                from vf.rigs.world import Killed
                if isinstance(ex, (PathAbort, Killed)):
                    raise
                outcomes.append(type(ex).__name__)
                try:
                    tx.rollback()
                except Exception:  # noqa
                    pass
            w.callbacks.clear()
            sp.note(f"fault{n + 1}", f"{st['label']} {(st['info'] or {}).get('path') or (st['info'] or {}).get('key') or ''}" if st["fired"] else "no fault")
        sp.note("outcomes", outcomes)
        sp.reach("after-op")
        tag = f"{rig}:reuse:{kind1}+{kind2}"
        try:
            obs = summarize(e)
        except reader.Unreadable as ex:
            sp.require(False, f"{tag}: outcomes {outcomes}: table unreadable: {ex}", {"sig": f"{tag}:unreadable"})
            return
        err = all_snapshots_readable(obs)
        sp.require(err is None, f"{tag}: outcomes {outcomes}: a file referenced by a retained snapshot is gone: {err}", {"sig": f"{tag}:referenced-file-missing"})
        extra = sorted(r for r in (obs.rows or []) if r not in (pre.rows or []))
        sp.require(sorted(r for r in obs.rows if r in pre.rows) == sorted(pre.rows) and all(r in (100, 200) for r in extra) and len(set(extra)) == len(extra),
                   f"{tag}: outcomes {outcomes}: rows {obs.rows} (before: {pre.rows})", {"sig": f"{tag}:rows"})
        for oc, row in zip(outcomes, (100, 200)):
            if oc == "ok":
                sp.require(row in obs.rows, f"{tag}: the commit of row {row} reported success but the row is not in the table", {"sig": f"{tag}:acked-row-missing"})
        if rig == "S":
            w.clock.advance(61_000)
        try:
            t2 = e.table()
            rows = sorted(r["a"] for r in t2.scan())
            t2.append_records([{"a": 999}])
            rows2 = sorted(r["a"] for r in t2.scan())
        except Exception as ex:  # noqa
            sp.require(False, f"{tag}: outcomes {outcomes}: the table is no longer readable/writable: {type(ex).__name__}: {ex}",
                       {"sig": f"{tag}:not-writable-after:{type(ex).__name__}"})
            return
        sp.require(rows == obs.rows and rows2 == sorted(rows + [999]), f"{tag}: follow-up rows {rows} -> {rows2}", {"sig": f"{tag}:followup-rows"})


def obligations(tier):
    obs = []
    T = 300 if tier == "quick" else 1500
    if tier == "quick":
        cfgs = []
        for op in ("append", "delete", "expire", "append_expire", "delsnap_cur"):
            cfgs.append(("L", True, op, "pre", "ctx"))
        for op in ("append", "replace"):
            cfgs.append(("L", True, op, "ki", "ctx"))
            cfgs.append(("L", True, op, "ki", "explicit"))
        cfgs += [("S", True, "append", "pre", "ctx"), ("S", True, "append", "post", "ctx"), ("S", True, "append", "ki", "ctx"),
                 ("S", True, "append", "trans", "explicit"), ("S", False, "append", "post", "ctx"), ("S", False, "append", "pre", "explicit"),
                 ("S", True, "delete", "post", "ctx"), ("S", True, "expire", "post", "ctx"), ("S", True, "append", "se", "explicit")]
        for c in cfgs:
            obs.append(_ob(*c, T=T))
    else:
        for rig, cas in (("L", True), ("S", True), ("S", False)):
            kinds = ["pre", "ki", "se"] if rig == "L" else ["pre", "trans", "post", "ki", "se"]
            for op in ("append", "append2", "delete", "replace", "expire", "append_expire", "delsnap_cur"):
                for kind in kinds:
                    for style in ("ctx", "explicit"):
                        if op == "delsnap_cur" and style == "explicit":
                            continue
                        obs.append(_ob(rig, cas, op, kind, style, T=T))
        for rig, cas, op, kind in (("L", True, "append", "pre"), ("S", True, "append", "post"), ("S", True, "append", "pre"), ("L", True, "replace", "ki")):
            obs.append(_ob(rig, cas, op, kind, "ctx", T=T, double=True))
    for rig, k1, k2 in ((("S", "post", "pre"), ("L", "ki", "pre")) if tier == "quick" else
                        (("S", "post", "pre"), ("S", "ki", "pre"), ("S", "post", "post"), ("S", "pre", "pre"), ("L", "ki", "pre"), ("L", "pre", "pre"), ("L", "ki", "ki"))):
        obs.append(Ob(f"reuse.{rig}.{k1}+{k2}", "vf.props.c04:reuse", {"rig": rig, "kind1": k1, "kind2": k2, "_must_reach": ["after-op"], "_sample_every": 200},
                      timeout=T, bounds=f"backend {rig}: one Transaction object reused for two commits, fault kind {k1} at every call on the pointer during the first and "
                                        f"fault kind {k2} at every position of the second", weight=8))
    return obs


def _ob(rig, cas, op, kind, style, T=300, double=False):
    name = f"fault.{rig}{'' if cas else 'nocas'}.{op}.{kind}.{style}{'.double' if double else ''}"
    return Ob(name, "vf.props.c04:faulty", {"rig": rig, "cas": cas, "op": op, "kind": kind, "style": style, "double": double,
                                             "_must_reach": ["after-op"], "_sample_every": 60}, timeout=T,
              bounds=f"backend {rig}{'' if cas else ' without CAS'}, {op}, fault kind {kind}, call style {style}, "
                     f"{'every ordered pair of fault positions' if double else 'every single fault position'} of the operation's trace",
              weight=8 if double else 3)
