"""C06 - garbage collection is safe against concurrently committing transactions.

E2 (symx) + baton threads: one collector (real GarbageCollector.collect) and 1-2 transactions (real
Transaction.append_data / commit with retry / rollback) on Rig L and Rig S.  Solver variables: the schedule (every
operation on a shared mutable object of both actors, pre-emption bound K), the grace period, the age of the
transaction's data file when the run starts (so it can be OLDER than the grace period when it commits), the clock
readings of the collector.  Assumptions added to the path condition: grace period > duration of the run (from the
property) and transaction duration < marker abandonment timeout (24 h, implied by the age bound)."""
from vf.oracles import reader
from vf.props.common import SCH, is_hint, is_lock, outcome
from vf.rigs.env import Env
from vf.runner import Ob
from vf.sched import Sched

LEVEL = "other"
TECHNIQUE = ('symx: symbolic schedule, grace period, file age and collector clock; real GarbageCollector racing real transactions under a baton scheduler; concrete replay')
EXPLANATION = (
    "Bounded symbolic execution (symx/z3) of the real collector racing real transactions under a baton scheduler; "
    "grace period, file ages and collector clock readings are symbolic, schedule choices are solver variables "
    "within a pre-emption bound; the reachability assertion is discharged per path and the tree exhausted.")
RULE = "one case = one explored path (schedule x feasible class of grace/age/clock values); non-trivial = z3 decided a scheduling choice or an age comparison"
ASSUMPTIONS = [
    "grace period > duration of the collection run (property's proviso); transaction duration < 24 h marker-abandonment timeout",
    "pre-emption bound K; scheduling points at operations on shared mutable objects: pointer, lock, in-flight markers, directory listings, "
    "renames (publication of a file), deletions, stats of listed files; reads of immutable uniquely named files are not points",
    "FakeOS / FakeS3 semantics, one global clock, mtime = virtual time of the last write",
]
TRUSTED = ["z3 5.1", "vf.symx", "vf.rigs.fakeos / fakes3"]


def gc_points(label, info):
    p = info.get("path") or info.get("key") or ""
    if is_hint(info) or is_lock(info) or "inflight" in p:
        return True
    if label in ("walk", "listdir", "scandir", "list>", "remove", "unlink", "replace", "rename", "del>", "del<", "flock", "sleep", "rlock"):
        return True
    if label in ("stat", "head>") and ("/data/" in p or "manifests/" in p or p.startswith("data/")):
        return True
    if label in ("put>", "put<"):
        return True
    return False


def gc_vs_txn(sp, rig="L", scenario="commit", K=2, max_age=8000):
    with Env(sp, rig=rig, clock="tick") as e:
        w = e.world
        t0 = e.table(schema=SCH)
        t0.append_records([{"a": 1}])
        t0.append_records([{"a": 2}])
        tg = e.table()
        tt = e.table()
        tx = tt.new_transaction()
        tx.begin()
        pre_written = scenario in ("commit", "rollback", "retry")
        if pre_written:
            tx.append_data([{"a": 100}])
        t2 = None
        if scenario == "retry":
            # conflict injection: another writer commits inside the transaction's first commit attempt (between its base
            # read and its validation), so the transaction loses the race once and retries with fresh manifests
            t2 = e.table()
            real_commit = tt.metadata_manager.commit
            state = {"n": 0}

            def commit_with_rival(base, new):
                state["n"] += 1
                if state["n"] == 1:
                    t2.append_records([{"a": 200}])
                return real_commit(base, new)

            tt.metadata_manager.commit = commit_with_rival
        # an orphan older than any grace period (non-vacuity: the run has something to delete)
        t0.storage.write_file("data/orphan_old.parquet", b"orphan")
        age = w.clock.advance_sym("age_ms", 0, max_age)
        grace = sp.fresh_int("grace_ms", 0, max_age // 2)
        w.clock.mode = "sym"
        w.clock.sites = {"time"}
        w.clock.maxd = 3
        w.clock.budget = 6
        sc = Sched(sp, K=K, world=w)
        w.yield_filter = gc_points
        times = {}

        def collector():
            times["start"] = w.clock.peek()
            try:
                return outcome(lambda: tg.garbage_collect(grace_period_ms=grace))
            finally:
                times["end"] = w.clock.peek()

        def txn():
            if scenario == "rollback":
                return outcome(lambda: tx.rollback())
            if scenario == "append":
                return outcome(lambda: (tx.append_data([{"a": 100}]), tx.commit()))
            return outcome(lambda: tx.commit())

        sc.spawn("g", collector)
        sc.spawn("t", txn)
        w.sched = sc
        try:
            sc.run()
        finally:
            w.sched = None
        for tid, err in sc.errors.items():
            raise AssertionError(f"actor {tid} crashed in harness: {err!r}")
        trace = sc.trace_str()
        sp.note("schedule", trace)
        sp.note("outcomes", {k: v[0] for k, v in sc.results.items()})
        sp.reach("ran")
        # proviso of the property: the grace period exceeds the duration of the run
        sp.assume(grace > times["end"] - times["start"])
        with w.inspect():
            files = e.files()
        name, md = reader.current_metadata(files, loads=e.symjson.loads)
        missing = []
        try:
            for p in sorted(reader.reachable(files, md)):
                if p not in files:
                    missing.append(p)
        except reader.Unreadable as ex:
            missing.append(str(ex))
        tag = f"{rig}:{scenario}"
        sp.require(not missing, f"{tag}: after the collection and the transaction finished, files referenced by the final metadata are gone: "
                   f"{missing[:3]} (txn outcome {sc.results['t'][0]}, gc outcome {sc.results['g'][0]}, schedule {trace})",
                   {"sig": f"{tag}:referenced-file-deleted"})
        if sc.results["t"][0] == "ok" and scenario != "rollback":
            rows = reader.current_rows(files, "a", loads=e.symjson.loads)
            sp.require(100 in rows, f"{tag}: committed row missing from the final table {rows}", {"sig": f"{tag}:row-missing"})
        # (a transaction that fails cleanly - e.g. because the collector removed one of its not-yet-published temp files
        #  after a pause longer than the grace period - is not a C06 violation: nothing committed references the file)


def obligations(tier):
    obs = []
    T = 400 if tier == "quick" else 1500
    if tier == "quick":
        cfgs = [("L", "commit", 1), ("L", "append", 1), ("L", "rollback", 2), ("S", "commit", 1), ("L", "retry", 1)]
    else:
        cfgs = [("L", "commit", 2), ("L", "append", 2), ("L", "rollback", 3), ("S", "commit", 2), ("S", "append", 2), ("L", "retry", 1), ("S", "retry", 1),
                ("L", "commit", 3)]
    for rig, sc, K in cfgs:
        obs.append(Ob(f"race.{rig}.{sc}.K{K}", "vf.props.c06:gc_vs_txn", {"rig": rig, "scenario": sc, "K": K, "_must_reach": ["ran"]}, timeout=T,
                      allow_inconclusive=(tier == "thorough" and K >= 3 and sc == "commit"),
                      bounds=f"rig {rig}, one collector vs a transaction ({sc}{' + a second committer forcing a retry' if sc == 'retry' else ''}), K={K}, "
                             f"grace 0..4 s and data-file age 0..8 s symbolic", weight=K * 3))
    return obs
