"""C10(b) - recovery when the version pointer is lost, damaged or stale.

E2 (symx) on Rig L and Rig S.  A real history (create + commits) optionally followed by an EVENT that leaves an
uncommitted metadata file behind through the REAL code (failed pointer write, fence failure, CAS conflict with the
loser's metadata file written before / after the winner's), then the solver picks the pointer damage class and the
follow-up action (open, create_table, append, collect).  Oracle: same table identity, same snapshot list and rows as
before the damage (plus the follow-up's own effect); a version that never became current is never surfaced."""
import errno

import datashard

from vf.oracles import reader
from vf.props.common import HINT, SCH, is_hint
from vf.rigs.env import Env
from vf.rigs.fakes3 import cerr
from vf.runner import Ob

DAMAGE = ["missing", "empty", "garbage_bytes", "garbage_digit", "legacy_current", "legacy_higher", "legacy_lower", "legacy_zero", "names_missing_higher",
          "names_missing_same", "names_missing_lower",
          "whitespace_valid", "valid", "stale"]
ACTIONS = ["open", "create", "append", "gc", "append_then_lose_pointer_again"]
EVENTS_L = ["none", "failed_commit", "fence_lost", "interrupted_commit"]
EVENTS_S = ["none", "cas_conflict", "cas_conflict_late", "fence_lost", "ambiguous_commit"]


def _inject_event(e, t, event):
    """Run one more operation through the real code such that an UNCOMMITTED metadata file is left behind."""
    w = e.world
    if event == "none":
        return
    if event == "failed_commit":
        st = {"armed": True}

        def cb(w_, label, info, a):
            if st["armed"] and is_hint(info) and label in ("replace", "put>"):
                st["armed"] = False
                raise OSError(errno.EIO, "injected") if e.rig == "L" else cerr("AccessDenied", "PutObject", 403)
        w.callbacks.append(cb)
        try:
            t.append_records([{"a": 50}])
        except Exception:  # noqa
            pass
        w.callbacks.clear()
        return
    if event in ("interrupted_commit", "ambiguous_commit"):
        # the pointer write is interrupted (KeyboardInterrupt) / fails ambiguously: the metadata file legitimately STAYS (the outcome
        # is unknown to the client); it did not commit.  A later successful commit gets the same version number.  The leftover's
        # name is made to sort AFTER any other name of that version (adversarial for tie-breaking by name).
        import datashard.metadata_manager as mm_
        real_name = mm_.MetadataManager._new_metadata_filename
        mm_.MetadataManager._new_metadata_filename = staticmethod(lambda version: f"v{version}-ffffffff.metadata.json")
        st = {"armed": True}

        def cb(w_, label, info, a):
            if st["armed"] and is_hint(info) and label in ("replace", "put>"):
                st["armed"] = False
                raise KeyboardInterrupt() if event == "interrupted_commit" else cerr("InternalError", "PutObject", 500)
        w.callbacks.append(cb)
        try:
            t.append_records([{"a": 50}])
        except BaseException as ex:  # noqa
            from vf.symx import PathAbort
            if isinstance(ex, PathAbort):
                raise
        finally:
            w.callbacks.clear()
            mm_.MetadataManager._new_metadata_filename = staticmethod(real_name)
        w.clock.advance(61_000 if e.rig == "S" else 5)
        e.table().append_records([{"a": 51}])  # a successful commit of the same version number
        return
    if event == "fence_lost":
        lp_ = t.metadata_manager.lock_provider
        real = lp_.is_held
        st = {"n": 0}

        def is_held():
            st["n"] += 1
            return False if st["n"] == 1 else real()
        lp_.is_held = is_held
        t.append_records([{"a": 60}])  # first attempt loses the fence, the retry commits
        lp_.is_held = real
        return
    if event in ("cas_conflict", "cas_conflict_late"):
        # loser: a delete_snapshot (no retry loop) whose validation precedes the rival's commit
        rival = e.table()
        st = {"armed": True, "busy": False}
        target = "put>"

        def cb(w_, label, info, a):
            k = info.get("key") or info.get("path") or ""
            hit = (event == "cas_conflict" and is_hint(info) and label in ("put>", "replace")) or \
                  (event == "cas_conflict_late" and "metadata/v" in k and label in ("put>", "replace", "open") and not is_hint(info))
            if st["armed"] and hit and not st["busy"]:
                st["armed"] = False
                st["busy"] = True
                try:
                    # the loser is paused past its lock lease here; the rival takes the lock over and commits
                    w.clock.advance(61_000)
                    rival.append_records([{"a": 70}])
                finally:
                    st["busy"] = False
        w.callbacks.append(cb)
        try:
            md = t.metadata_manager.refresh()
            t.snapshot_manager.delete_snapshot(md.snapshots[0].snapshot_id)
        except Exception:  # noqa
            pass
        w.callbacks.clear()
        return
    raise ValueError(event)


def recovery(sp, rig="L", event="none", damages=None):
    with Env(sp, rig=rig, clock="tick") as e:
        w = e.world
        t = e.table(schema=SCH)
        t.append_records([{"a": 1}])
        t.append_records([{"a": 2}])
        with w.inspect():
            older_ptr = e.files()[HINT]
        t.append_records([{"a": 3}])
        _inject_event(e, t, event)
        w.clock.advance(5)
        with w.inspect():
            files0 = e.files()
        name0, md0 = reader.current_metadata(files0, loads=e.symjson.loads)
        rows0 = reader.current_rows(files0, "a", loads=e.symjson.loads)
        snaps0 = [s["snapshot_id"] for s in md0["snapshots"]]
        uuid0 = md0["table_uuid"]
        ver0 = int(name0[1:].split("-")[0].split(".")[0])
        committed = {reader.read_pointer({HINT: b}) for (_, _, b) in e.pointer_history() if b}
        on_disk = sorted(p for p in files0 if p.startswith("metadata/v"))
        orphans = [p for p in on_disk if p[len("metadata/"):] not in committed]
        pool = damages or DAMAGE
        di = sp.choose(len(pool), name="damage")
        damage = pool[di]
        ai = sp.choose(len(ACTIONS), name="action")
        action = ACTIONS[ai]
        st = t.storage
        with w.inspect():
            if damage == "missing":
                st.delete_file(HINT)
            elif damage == "empty":
                st.write_file(HINT, b"")
            elif damage == "garbage_bytes":
                st.write_file(HINT, b"\xff\xfe\x00garbage")
            elif damage == "garbage_digit":
                st.write_file(HINT, "²".encode())
            elif damage == "legacy_current":
                st.write_file(HINT, str(ver0).encode())
            elif damage == "legacy_higher":
                st.write_file(HINT, str(ver0 + 5).encode())
            elif damage == "legacy_lower":
                st.write_file(HINT, str(max(ver0 - 2, 1)).encode())
            elif damage == "legacy_zero":
                st.write_file(HINT, b"0")
            elif damage == "names_missing_lower":
                st.write_file(HINT, f"v{max(ver0 - 1, 1)}-00000000.metadata.json".encode())
            elif damage == "names_missing_higher":
                st.write_file(HINT, f"v{ver0 + 1}-deadbeef.metadata.json".encode())
            elif damage == "names_missing_same":
                st.write_file(HINT, f"v{ver0}-deadbeef.metadata.json".encode())
            elif damage == "whitespace_valid":
                st.write_file(HINT, b"  " + name0.encode() + b"\n")
            elif damage == "stale":
                st.write_file(HINT, older_ptr)
        if rig == "S":
            w.clock.advance(61_000)
        tag = f"{rig}:{event}:{damage}:{action}"
        sp.note("event", event)
        sp.note("damage", damage)
        sp.note("action", action)
        sp.note("orphan_metadata_files", len(orphans))
        sp.reach("ran")
        exp_rows = list(rows0)
        try:
            if action == "open":
                t2 = datashard.load_table(e.root)
            elif action == "create":
                t2 = datashard.create_table(e.root, schema=SCH)
            elif action == "append":
                t2 = e.table()
                t2.append_records([{"a": 99}])
                exp_rows = sorted(exp_rows + [99])
            elif action == "append_then_lose_pointer_again":
                t3 = e.table()
                t3.append_records([{"a": 99}])
                exp_rows = sorted(exp_rows + [99])
                with w.inspect():
                    st.delete_file(HINT)
                t2 = datashard.load_table(e.root)
            else:
                t2 = e.table()
                t2.garbage_collect(grace_period_ms=0)
            md = t2.metadata_manager.refresh()
            rows = sorted(r["a"] for r in t2.scan())
        except Exception as ex:  # noqa
            sp.require(False, f"{tag}: with the pointer {damage} the table cannot be opened / used: {type(ex).__name__}: {str(ex)[:120]}",
                       {"sig": f"recovery-fails:{damage}:{type(ex).__name__}"})
            return
        sp.require(md is not None and md.table_uuid == uuid0, f"{tag}: the table was re-initialised (identity changed)", {"sig": f"reinitialised:{damage}"})
        got_snaps = [s.snapshot_id for s in md.snapshots]
        exp_snaps = snaps0 if not action.startswith("append") else snaps0 + got_snaps[-1:]
        surfaced_orphan = event != "none" and (got_snaps[:len(snaps0)] != snaps0 or rows != exp_rows)
        sig = "stale-pointer-trusted" if damage == "stale" else f"{'orphan-surfaced' if surfaced_orphan and orphans else 'wrong-version'}:{event}:{damage}"
        sp.require(got_snaps[:len(snaps0)] == snaps0 and len(got_snaps) == len(exp_snaps),
                   f"{tag}: resolved to a version with {len(got_snaps)} snapshots, the latest committed one has {len(snaps0)} "
                   f"({len(orphans)} uncommitted metadata file(s) on disk: {orphans})", {"sig": sig})
        sp.require(rows == exp_rows, f"{tag}: rows {rows}, the latest committed version holds {exp_rows}", {"sig": sig})


def recovery_race(sp, rig="L", K=2):
    """Recovery is not only sequential: an opener resolving a LOST pointer by scanning races a committer.  Whatever the opener does with
    what it found (nothing, on a correct tree), a commit acknowledged meanwhile must stay (same harness as C18's race, initial state
    'pointer lost', actors: load + schema-less append)."""
    from vf.props import c18
    return c18.race(sp, rig=rig, state="pointer_lost", actors=("load", "append_noschema"), K=K)


def obligations(tier):
    obs = []
    T = 300 if tier == "quick" else 900
    rest = [d for d in DAMAGE if d != "stale"]
    for rig, events in (("L", EVENTS_L), ("S", EVENTS_S)):
        for ev in events:
            obs.append(Ob(f"b.recovery.{rig}.{ev}", "vf.props.c10b:recovery", {"rig": rig, "event": ev, "damages": rest, "_must_reach": ["ran"]}, timeout=T,
                          bounds=f"rig {rig}, history create+3 commits, event '{ev}', every pointer damage class except 'stale' ({len(rest)}) x follow-up action ({len(ACTIONS)})",
                          weight=3))
        obs.append(Ob(f"b.recovery_race.{rig}.K2", "vf.props.c10b:recovery_race", {"rig": rig, "K": 2 if tier == "quick" else 3, "_must_reach": ["ran"]}, timeout=T,
                      bounds=f"rig {rig}: pointer lost, an opener (recovery by scanning) races a committer, K=2 (quick) / 3 (thorough)", weight=4))
        obs.append(Ob(f"b.recovery.{rig}.stale_pointer", "vf.props.c10b:recovery", {"rig": rig, "event": "none", "damages": ["stale"], "_must_reach": ["ran"]},
                      timeout=T, bounds=f"rig {rig}, pointer replaced by its own content of one commit earlier x follow-up action", weight=2))
    return obs
