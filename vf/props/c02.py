"""C02 - readers observe only whole committed snapshots.

E2 (symx) + baton threads: 1-2 readers (each read API) pre-emptible at EVERY storage read, 1-2 writers performing
real commits (multi-append transaction, file delete, replace, rollback = delete of the current snapshot, a commit that
fails at the pointer write).  The rig stamps every pointer flip with the logical step; a read's result must equal
the content (computed by the independent reader) of a version that was current at some instant inside the read's
[start, end] window; successive reads through one handle never move backwards."""
import errno

from vf.oracles import reader
from vf.props.common import HINT, SCH, is_hint, is_lock, outcome
from vf.props.singleop import file_of_row, summarize
from vf.rigs.env import Env
from vf.runner import Ob
from vf.sched import Sched

LEVEL = "other"
TECHNIQUE = ('symx: symbolic schedules (pre-emption bound) of real readers vs real writers; window / all-or-nothing oracle per path; concrete replay')
EXPLANATION = (
    "Bounded symbolic execution (symx/z3) of the real read paths racing real commits under a baton scheduler: the "
    "reader can be pre-empted at every storage read, writers at every file publication and pointer operation; the "
    "window oracle is discharged per path and the decision tree exhausted within the pre-emption bound.")
RULE = "one case = one explored schedule; non-trivial = z3 decided a scheduling choice"
ASSUMPTIONS = [
    "pre-emption bound K; reader points = every storage read/stat; writer points = every rename into place, pointer and lock operation, deletion",
    "ThreadPoolExecutor workers of parallel scans run sequentially inside the calling actor; Arrow's own C++ threads are not scheduled",
    "garbage collection running concurrently with readers is not in this property's quantifier",
]
TRUSTED = ["z3 5.1", "vf.symx", "rigs", "pyarrow on concrete data"]

APIS = ["scan", "scan_parallel", "scan_batches", "iter_records", "row_count", "scan_noverify"]


def read_api(t, api):
    if api == "scan":
        return sorted(r["a"] for r in t.scan())
    if api == "scan_parallel":
        return sorted(r["a"] for r in t.scan(parallel=2))
    if api == "scan_noverify":
        return sorted(r["a"] for r in t.scan(verify_checksums=False))
    if api == "scan_batches":
        return sorted(r["a"] for b in t.scan_batches(batch_size=1) for r in b)
    if api == "iter_records":
        return sorted(r["a"] for r in t.iter_records())
    if api == "row_count":
        return t.row_count()
    raise ValueError(api)


def rw_points(label, info):
    a = getattr(__import__("threading").current_thread(), "tid", "main")
    p = info.get("path") or info.get("key") or ""
    if is_hint(info) or is_lock(info) or label in ("flock", "sleep", "rlock"):
        return True
    if isinstance(a, str) and a.startswith("r"):
        return label in ("stat", "open_r", "get>", "head>", "list>", "walk", "read")
    return label in ("replace", "rename", "put<", "remove", "del>", "del<")


def readers_writers(sp, rig="L", api="scan", writer="txn_delete_rollback", K=2, readers=1, writers=1, shared_readers=False):
    with Env(sp, rig=rig, clock="tick") as e:
        w = e.world
        tw = e.table(schema=SCH)
        tw.append_records([{"a": 1}])
        with tw.new_transaction() as tx:
            tx.append_data([{"a": 2}])
            tx.append_data([{"a": 3}])
            tx.commit()
        victim = file_of_row(summarize(e), 2)
        trs = [e.table() for _ in range(readers)]
        if shared_readers:
            # all readers are threads sharing ONE long-lived handle that has already answered a read before the writers start
            trs = [trs[0]] * readers
            read_api(trs[0], api)
        tws = [tw] + [e.table() for _ in range(writers - 1)]
        h0 = len(e.pointer_history())
        with w.inspect():
            init_ptr = e.files()[HINT]

        def writer_fn(i):
            t = tws[i]

            def fn():
                if writer == "txn_delete_rollback" and i == 0:
                    with t.new_transaction() as tx:
                        tx.append_data([{"a": 10}])
                        tx.append_data([{"a": 11}])
                        tx.commit()
                    with t.new_transaction() as tx:
                        tx.delete_files([victim])
                        tx.commit()
                    t.snapshot_manager.delete_snapshot(t.metadata_manager.refresh().current_snapshot_id)
                elif writer == "replace_vs_append":
                    if i == 0:
                        with t.new_transaction() as tx:   # delete + append in ONE transaction, racing the other writer's append
                            tx.append_data([{"a": 10}])
                            tx.delete_files([victim])
                            tx.commit()
                    else:
                        t.append_records([{"a": 30 + i}])
                elif writer == "replace_failed" and i == 0:
                    with t.new_transaction() as tx:
                        tx.append_data([{"a": 10}])
                        tx.delete_files([victim])
                        tx.commit()
                    # a commit that fails cleanly at the pointer write
                    armed = {"on": True}

                    def cb(w_, label, info, a):
                        if armed["on"] and a == f"w{i}" and is_hint(info) and label in ("replace", "put>"):
                            armed["on"] = False
                            raise OSError(errno.EIO, "injected") if rig == "L" else __import__("vf.rigs.fakes3", fromlist=["cerr"]).cerr("AccessDenied", "PutObject", 403)
                    w.callbacks.append(cb)
                    try:
                        t.append_records([{"a": 20}])
                    except Exception:  # noqa
                        pass
                else:
                    t.append_records([{"a": 30 + i}])
                    with t.new_transaction() as tx:
                        tx.append_data([{"a": 40 + i}])
                        tx.append_data([{"a": 50 + i}])
                        tx.commit()
                return "done"
            return fn

        windows = {}

        def reader_fn(j):
            t = trs[j]

            def fn():
                out = []
                for n in range(2):
                    s0 = w.step
                    v = read_api(t, api)
                    out.append((s0, w.step, v))
                windows[j] = out
                return "done"
            return fn

        sc = Sched(sp, K=K, world=w)
        w.yield_filter = rw_points
        for j in range(readers):
            sc.spawn(f"r{j}", lambda f=reader_fn(j): outcome(f))
        for i in range(writers):
            sc.spawn(f"w{i}", lambda f=writer_fn(i): outcome(f))
        w.sched = sc
        try:
            sc.run()
        finally:
            w.sched = None
            w.callbacks.clear()
        for tid, err in sc.errors.items():
            raise AssertionError(f"actor {tid} crashed in harness: {err!r}")
        trace = sc.trace_str()
        sp.note("schedule", trace)
        sp.reach("ran")
        tag = f"{rig}:{api}:{writer}"
        for tid, r in sc.results.items():
            if writers > 1 and type(r[1]).__name__ == "ConcurrentModificationException":
                continue  # with rival writers a commit without a retry loop (delete_snapshot) may legitimately lose the race
            sp.require(r[0] == "ok", f"{tag}: actor {tid} failed with {r[1]!r} (schedule {trace})", {"sig": f"{tag}:actor-failed:{type(r[1]).__name__}"})
        # versions: initial pointer + every applied flip, each with the rows of its current snapshot
        with w.inspect():
            files = e.files()
        versions = [(0, init_ptr)] + [(st, body) for (st, a, body) in e.pointer_history()[h0:]]
        rows_of = []
        for st, body in versions:
            f2 = dict(files)
            f2[HINT] = body
            rows_of.append(sorted(reader.current_rows(f2, "a", loads=e.symjson.loads) or []))
        # a transaction becomes visible all at once or not at all: every version the pointer ever named is one of the states
        # the writers' acknowledged transactions produce (no intermediate state is ever published)
        if writers == 1:
            if writer == "txn_delete_rollback":
                legal = [[1, 2, 3], [1, 2, 3, 10, 11], [1, 3, 10, 11]]
            elif writer == "replace_failed":
                legal = [[1, 2, 3], [1, 3, 10]]
            else:
                legal = None
            if legal is not None:
                for k, rws in enumerate(rows_of):
                    sp.require(rws in legal, f"{tag}: the pointer published an intermediate state {rws} that no whole transaction produces "
                               f"(legal states {legal}; schedule {trace})", {"sig": f"{tag}:partial-transaction-visible"})
        if writer == "replace_vs_append":
            # serial application, in pointer-flip order, of the WHOLE transaction of whoever flipped
            cur = [1, 2, 3]
            flips = e.pointer_history()[h0:]
            for k, (st, a, body) in enumerate(flips):
                cur = sorted([r for r in cur if r != 2] + [10]) if a == "w0" else sorted(cur + [30 + int(str(a)[1:])])
                sp.require(rows_of[k + 1] == cur, f"{tag}: after the commit of {a} the pointer published rows {rows_of[k + 1]}; applying that writer's whole "
                           f"transaction to the previous state gives {cur} (schedule {trace})", {"sig": f"{tag}:partial-transaction-visible"})
        for j, reads in windows.items():
            prev_min = 0
            for n, (s0, s1, got) in enumerate(reads):
                allowed = [k for k, (st, _) in enumerate(versions)
                           if st <= s1 and (k + 1 == len(versions) or versions[k + 1][0] >= s0)]
                vals = [rows_of[k] if api != "row_count" else len(rows_of[k]) for k in allowed]
                ok_k = [k for k, v in zip(allowed, vals) if v == got]
                sp.require(bool(ok_k), f"{tag}: read #{n + 1} of reader {j} returned {got}, but the versions current during the read held "
                           f"{vals} (schedule {trace})", {"sig": f"{tag}:not-a-committed-snapshot"})
                ok2 = [k for k in ok_k if k >= prev_min]
                sp.require(bool(ok2), f"{tag}: reader {j} moved backwards in commit order between successive reads (schedule {trace})",
                           {"sig": f"{tag}:moved-backwards"})
                prev_min = min(ok2) if ok2 else prev_min


def obligations(tier):
    obs = []
    T = 400 if tier == "quick" else 1200
    if tier == "quick":
        cfgs = [("L", "scan", "txn_delete_rollback", 1), ("L", "row_count", "txn_delete_rollback", 1), ("L", "scan_batches", "replace_failed", 1),
                ("L", "scan", "replace_failed", 1), ("L", "row_count", "replace_failed", 1),
                ("L", "iter_records", "txn_delete_rollback", 1), ("L", "scan_parallel", "replace_failed", 1), ("L", "scan_noverify", "txn_delete_rollback", 1),
                ("S", "scan", "txn_delete_rollback", 1), ("S", "row_count", "replace_failed", 1)]
        obs.append(Ob("rw.L.scan.replace_vs_append.2writers.K1", "vf.props.c02:readers_writers",
                      {"rig": "L", "api": "scan", "writer": "replace_vs_append", "K": 1, "writers": 2, "_must_reach": ["ran"]}, timeout=T,
                      bounds="1 reader vs 2 writers on separate handles (a delete+append transaction racing a plain append), K=1", weight=6))
        obs.append(Ob("rw.L.scan.shared_readers.K1", "vf.props.c02:readers_writers",
                      {"rig": "L", "api": "scan", "writer": "appends", "K": 1, "readers": 2, "shared_readers": True, "_must_reach": ["ran"]}, timeout=T,
                      bounds="2 reader threads sharing one warm handle vs 1 writer (append, 2-append transaction), K=1", weight=6))
        for rig, api, wr, K in cfgs:
            obs.append(Ob(f"rw.{rig}.{api}.{wr}.K{K}", "vf.props.c02:readers_writers", {"rig": rig, "api": api, "writer": wr, "K": K, "_must_reach": ["ran"]},
                          timeout=T, bounds=f"rig {rig}, 1 reader ({api}, two successive reads) vs 1 writer ({wr}), K={K}", weight=K * 3))
    else:
        for rig in ("L", "S"):
            for api in APIS:
                for wr in ("txn_delete_rollback", "replace_failed"):
                    obs.append(Ob(f"rw.{rig}.{api}.{wr}.K2", "vf.props.c02:readers_writers", {"rig": rig, "api": api, "writer": wr, "K": 2}, timeout=T,
                                  bounds=f"rig {rig}, 1 reader ({api}) vs 1 writer ({wr}), K=2", weight=6))
        for api in ("scan", "row_count", "scan_batches"):
            obs.append(Ob(f"rw.L.{api}.replace_vs_append.2writers.K2", "vf.props.c02:readers_writers",
                          {"rig": "L", "api": api, "writer": "replace_vs_append", "K": 2, "writers": 2}, timeout=T,
                          bounds="1 reader vs 2 writers on separate handles (a delete+append transaction racing a plain append), K=2", weight=9, allow_inconclusive=True))
            obs.append(Ob(f"rw.L.{api}.shared_readers.K2", "vf.props.c02:readers_writers",
                          {"rig": "L", "api": api, "writer": "appends", "K": 2, "readers": 2, "shared_readers": True}, timeout=T,
                          bounds="2 reader threads sharing one warm handle vs 1 writer, K=2", weight=9, allow_inconclusive=True))
        obs.append(Ob("rw.L.scan.2writers.K2", "vf.props.c02:readers_writers", {"rig": "L", "api": "scan", "writer": "txn_delete_rollback", "K": 2, "writers": 2},
                      timeout=T, bounds="1 reader vs 2 writers, K=2", weight=9))
        obs.append(Ob("rw.L.row_count.2readers.K2", "vf.props.c02:readers_writers", {"rig": "L", "api": "row_count", "writer": "txn_delete_rollback", "K": 2, "readers": 2},
                      timeout=T, bounds="2 readers vs 1 writer, K=2", weight=9, allow_inconclusive=True))
        obs.append(Ob("rw.L.scan.K3", "vf.props.c02:readers_writers", {"rig": "L", "api": "scan", "writer": "txn_delete_rollback", "K": 3}, timeout=T,
                      bounds="1 reader vs 1 writer, K=3", weight=9, allow_inconclusive=True))
    return obs
