"""C13 - file pruning never changes a query's answer.

E1 (CrossHair).  For symbolic file rows r0..r2 (Optional[T], T in int/float/str/bool), a symbolic literal and
each operator, the REAL pipeline is executed:

   DataFileManager._compute_column_bounds   (over an Arrow-kernel shim, validated against pyarrow each run)
   -> FileManager.create_manifest_file / read_manifest_file  (real bound encoding: _encode_bound/_decode_bound,
      the str(field id) keying, the status/sequence plumbing; the C codecs json/fastavro are replaced by token
      codecs that keep values symbolic)
   -> filters.parse_filter_dict -> filters.prune_files_by_bounds / _file_may_match

and the assertion is:  some row satisfies the predicate (SQL 3-valued reference)  ==>  the file is kept.
"""
import itertools
import math
from typing import List, Optional

import pyarrow as pa

import datashard.data_operations as dops
import datashard.file_manager as fmod
from datashard.data_operations import DataFileManager
from datashard.data_structures import DataFile, FileFormat, ManifestContent, Schema
from datashard.file_manager import FileManager
from datashard.filters import parse_filter_dict, prune_files_by_bounds

from vf.oracles.sql3v import filter_value, matches
from vf.rigs.arrowshim import ShimColumn, ShimCompute, ShimTable, validate_minmax_against_pyarrow
from vf.rigs.memstore import MemStore
from vf.runner import Ob

LEVEL = "other"
TECHNIQUE = ('CrossHair (z3) on the real bounds computation -> manifest round trip -> pruning decision with symbolic rows and literals (Arrow kernels shimmed, validated against pyarrow each run); concrete end-to-end grids as translator validation')
EXPLANATION = (
    "Bounded symbolic execution (CrossHair/z3) of the real bounds computation, bound encode/decode, manifest "
    "entry plumbing, filter parser and pruning decision on symbolic file rows (<=3 rows incl. NULL/NaN/inf), "
    "symbolic literals and every operator; verdict 'Confirmed over all paths' per (type, operator) obligation. "
    "Concrete boundary grids additionally go through the real json/fastavro codecs and real pyarrow end to end.")
RULE = ("one case = one z3 query issued by CrossHair while exploring a (type, operator) harness; every query "
        "decides a branch on symbolic row/literal values, so all are counted non-trivial; concrete grid cases are "
        "counted under concrete_crosschecks")
ASSUMPTIONS = [
    "files with more than 3 rows are outside the verdict (min/max make larger files behave like 3-row ones for these operators - argued, not proved)",
    "Arrow min/max/is_nan kernels are modelled by vf/rigs/arrowshim.py and compared with real pyarrow on a boundary grid every run",
    "json and fastavro (C codecs) are replaced by token codecs under the solver; their scalar fidelity is checked only on the concrete grid",
    "NaN inside an IN / NOT IN literal list is excluded (SQL leaves it unspecified; Arrow is_in treats NaN = NaN)",
    "in the symbolic part the literal type equals the column type; literals of another type (datetime on a date column, float on a long "
    "column ...) only on the concrete grids, and only where pyarrow itself accepts them on the unpruned read",
    "Parquet row-group pruning inside pyarrow is not examined",
]
TRUSTED = ["CrossHair 0.0.110", "z3 5.1", "vf.rigs.arrowshim (validated each run)", "CPython json / fastavro on scalars"]

OP = "=="
NROWS = 3
N = -1
FIELD_ID = 7
SCHEMA = Schema(schema_id=1, fields=[{"id": 3, "name": "other", "type": "long", "required": False},
                                     {"id": FIELD_ID, "name": "c", "type": "double", "required": False}])
PA = {"int": pa.int64(), "float": pa.float64(), "str": pa.string(), "bool": pa.bool_()}
ICE = {"int": "long", "float": "double", "str": "string", "bool": "boolean"}


class _TokenJson:
    """json stand-in: dumps() parks the object and returns a concrete token; loads() returns it."""

    def __init__(self):
        self.tab = {}

    def dumps(self, obj, **kw):
        k = f"#J{len(self.tab)}"
        self.tab[k] = obj
        return k

    def loads(self, s, **kw):
        if isinstance(s, str) and s in self.tab:
            return dict(self.tab[s])
        raise ValueError("not a token")


class _TokenAvro:
    """fastavro stand-in: writer() parks the records and writes a token; reader() yields them."""

    def __init__(self):
        self.tab = {}

    def writer(self, fo, schema, records, **kw):
        k = f"#A{len(self.tab)}".encode()
        self.tab[k] = [dict(r) for r in records]
        fo.write(k)

    def reader(self, fo):
        k = fo.read()
        if k not in self.tab:
            raise ValueError("not an avro token")
        return iter(self.tab[k])


def _pipeline(rows, kind, cond):
    """Run the real code; returns True iff the file is KEPT for filter {'c': cond}."""
    schema = Schema(schema_id=1, fields=[{"id": 3, "name": "other", "type": "long", "required": False},
                                         {"id": FIELD_ID, "name": "c", "type": ICE[kind], "required": False}])
    # a second column with ordinary bounds, so the file HAS bound maps even when the filtered column gets none
    table = ShimTable({"c": ShimColumn(rows, PA[kind]), "other": ShimColumn(list(range(len(rows))), PA["int"])})
    dfm = DataFileManager.__new__(DataFileManager)
    old_pc = pa.compute
    old_json, old_avro = fmod.json, fmod.fastavro
    tj, ta = _TokenJson(), _TokenAvro()
    try:
        pa.compute = ShimCompute  # `import pyarrow.compute as pc` inside the function resolves to this
        lower, upper = dfm._compute_column_bounds(table, schema)
        fmod.json, fmod.fastavro = tj, ta
        fm = FileManager.__new__(FileManager)
        fm.storage = MemStore()
        fm.manifests_path = "metadata/manifests"
        df = DataFile(file_path="/data/f.parquet", file_format=FileFormat.PARQUET, partition_values={},
                      record_count=len(rows), file_size_in_bytes=1, lower_bounds=lower, upper_bounds=upper)
        mf = fm.create_manifest_file([df], ManifestContent.DATA, snapshot_id=11, sequence_number=1)
        back = fm.read_manifest_file(mf.manifest_path)
    finally:
        pa.compute = old_pc
        fmod.json, fmod.fastavro = old_json, old_avro
    exprs = parse_filter_dict({"c": cond})
    kept = prune_files_by_bounds(back, exprs, schema)
    return len(kept) == 1


def _sound(rows, kind, v) -> bool:
    kept = _pipeline(rows, kind, filter_value(OP, v))
    if kept:
        return True
    return not any(matches(OP, r, v) for r in rows)


def _nanfree(vs):
    return all(not (isinstance(e, float) and e != e) for e in vs)


# ---- scalar-literal operators -------------------------------------------------
def int_scalar(r0: Optional[int], r1: Optional[int], r2: Optional[int], v: int) -> bool:
    """
    post: _
    """
    return _sound([r0, r1, r2], "int", v)


def float_scalar(r0: Optional[float], r1: Optional[float], r2: Optional[float], v: float) -> bool:
    """
    pre: NROWS >= 3 or r2 is None
    post: _
    """
    return _sound([r0, r1, r2][:NROWS], "float", v)


def str_scalar(r0: Optional[str], r1: Optional[str], v: str) -> bool:
    """
    pre: (r0 is None or len(r0) <= 2) and (r1 is None or len(r1) <= 2) and len(v) <= 2
    post: _
    """
    return _sound([r0, r1], "str", v)


LONG = "p" * 40  # longer than any plausible bound-truncation width


def strlong_scalar(r0: str, r1: str, v: str) -> bool:
    """
    pre: len(r0) <= 1 and len(r1) <= 1 and len(v) <= 1
    post: _
    """
    # long values sharing a 40-character prefix: the stored bounds must still cover the true maximum
    return _sound([LONG + r0, LONG + r1], "str", LONG + v)


def strlong_scalar__samples():
    return [("a", "b", "b"), ("", "z", "y"), ("b", "b", "b")]


def bool_scalar(r0: Optional[bool], r1: Optional[bool], r2: Optional[bool], v: bool) -> bool:
    """
    post: _
    """
    return _sound([r0, r1, r2], "bool", v)


# ---- list-literal operators (in / not_in), between ---------------------------------
def int_list0(r0: Optional[int], r1: Optional[int], r2: Optional[int]) -> bool:
    """
    post: _
    """
    return _sound([r0, r1, r2], "int", [])


def int_list1(r0: Optional[int], r1: Optional[int], r2: Optional[int], a: Optional[int]) -> bool:
    """
    post: _
    """
    return _sound([r0, r1, r2], "int", [a])


def int_list2(r0: Optional[int], r1: Optional[int], r2: Optional[int], a: Optional[int], b: Optional[int]) -> bool:
    """
    post: _
    """
    return _sound([r0, r1, r2], "int", [a, b])


def float_list0(r0: Optional[float], r1: Optional[float], r2: Optional[float]) -> bool:
    """
    pre: NROWS >= 3 or r2 is None
    post: _
    """
    return _sound([r0, r1, r2][:NROWS], "float", [])


def float_list1(r0: Optional[float], r1: Optional[float], r2: Optional[float], a: Optional[float]) -> bool:
    """
    pre: NROWS >= 3 or r2 is None
    pre: a is None or a == a
    post: _
    """
    return _sound([r0, r1, r2][:NROWS], "float", [a])


def float_list2(r0: Optional[float], r1: Optional[float], r2: Optional[float], a: Optional[float], b: Optional[float]) -> bool:
    """
    pre: NROWS >= 3 or r2 is None
    pre: (a is None or a == a) and (b is None or b == b)
    post: _
    """
    return _sound([r0, r1, r2][:NROWS], "float", [a, b])


def str_list0(r0: Optional[str], r1: Optional[str]) -> bool:
    """
    pre: all(x is None or len(x) <= 2 for x in (r0, r1))
    post: _
    """
    return _sound([r0, r1], "str", [])


def str_list1(r0: Optional[str], r1: Optional[str], a: Optional[str]) -> bool:
    """
    pre: all(x is None or len(x) <= 2 for x in (r0, r1, a))
    post: _
    """
    return _sound([r0, r1], "str", [a])


def str_list2(r0: Optional[str], r1: Optional[str], a: Optional[str], b: Optional[str]) -> bool:
    """
    pre: all(x is None or len(x) <= 2 for x in (r0, r1, a, b))
    post: _
    """
    return _sound([r0, r1], "str", [a, b])


def int_between(r0: Optional[int], r1: Optional[int], r2: Optional[int], lo: int, hi: int) -> bool:
    """
    post: _
    """
    return _sound([r0, r1, r2], "int", (lo, hi))


def float_between(r0: Optional[float], r1: Optional[float], r2: Optional[float], lo: float, hi: float) -> bool:
    """
    pre: NROWS >= 3 or r2 is None
    post: _
    """
    return _sound([r0, r1, r2][:NROWS], "float", (lo, hi))


def str_between(r0: Optional[str], r1: Optional[str], lo: str, hi: str) -> bool:
    """
    pre: all(x is None or len(x) <= 2 for x in (r0, r1, lo, hi))
    post: _
    """
    return _sound([r0, r1], "str", (lo, hi))


# ---- conjunction over two columns ----------------------------------------------------------
OP2 = "<"


def int_conj(a0: Optional[int], a1: Optional[int], b0: Optional[int], b1: Optional[int], v: int, w: int) -> bool:
    """
    post: _
    """
    schema = Schema(schema_id=1, fields=[{"id": 3, "name": "d", "type": "long", "required": False},
                                         {"id": FIELD_ID, "name": "c", "type": "long", "required": False}])
    table = ShimTable({"c": ShimColumn([a0, a1], PA["int"]), "d": ShimColumn([b0, b1], PA["int"])})
    dfm = DataFileManager.__new__(DataFileManager)
    old_pc = pa.compute
    try:
        pa.compute = ShimCompute
        lower, upper = dfm._compute_column_bounds(table, schema)
    finally:
        pa.compute = old_pc
    df = DataFile(file_path="/data/f.parquet", file_format=FileFormat.PARQUET, partition_values={}, record_count=2,
                  file_size_in_bytes=1, lower_bounds=lower, upper_bounds=upper)
    exprs = parse_filter_dict({"c": filter_value(OP, v), "d": filter_value(OP2, w)})
    kept = prune_files_by_bounds([df], exprs, schema)
    if kept:
        return True
    return not any(matches(OP, x, v) and matches(OP2, y, w) for x, y in ((a0, b0), (a1, b1)))


# ---- concrete grids (translator validation; real json + fastavro + pyarrow) ---------------------
NAN, INF = float("nan"), float("inf")
_INT_GRID = [None, -1, 0, 1, 2 ** 53 + 1, -(2 ** 63)]
_FLT_GRID = [None, NAN, -INF, -0.0, 0.0, 0.5, 1.0, INF]


def _mk_samples(grid, nrows, lit):
    out = []
    for rows in itertools.product(grid, repeat=nrows):
        for v in lit:
            out.append(tuple(rows) + (v,))
    return out


def int_scalar__samples():
    return _mk_samples([None, -1, 0, 2 ** 53 + 1], 3, [-1, 0, 1, 2 ** 53 + 1])[:200]


def float_scalar__samples():
    return _mk_samples([None, NAN, 0.5, -0.0, INF], 3, [0.5, 0.0, NAN, INF])[:300]


def str_scalar__samples():
    return _mk_samples([None, "", "a", "10", "9", "é"], 2, ["", "a", "9", "é"])


def bool_scalar__samples():
    return _mk_samples([None, True, False], 3, [True, False])


def _sig(*args):
    rows = [a for a in args]
    has_nan = any(isinstance(a, float) and a != a for a in rows)
    return f"op={OP}:{'nan-row' if has_nan else 'no-nan'}"


int_scalar__signature = float_scalar__signature = str_scalar__signature = bool_scalar__signature = strlong_scalar__signature = _sig
for _k in ("int", "float", "str"):
    for _n in (0, 1, 2):
        globals()[f"{_k}_list{_n}__signature"] = _sig
int_between__signature = float_between__signature = str_between__signature = int_conj__signature = _sig


# ---- end-to-end grid through the real Table API (native engine): pruned == unpruned ----------------
def e2e_grid(kind="float"):
    """Real pyarrow, real json/fastavro, real local backend: scan(filter) with pruning vs. with the pruning
    function replaced by the identity, over a boundary grid.  Also the shim validation."""
    import shutil
    import tempfile
    import time as _t
    from datetime import date, datetime

    import datashard.filters as flt
    from datashard import create_table

    t0 = _t.time()
    n_shim = validate_minmax_against_pyarrow()
    grids = {
        "float": ("double", [[NAN, 0.5], [0.5, 0.5], [None, 1.0, 2.0], [NAN], [-INF, INF], [None, None], [NAN, 7.0, 9.0]],
                  [0.5, 1.0, 3.0, -INF, 8.0]),
        # ONE append larger than the writer's 1000-record chunk, the NaN in the middle chunk: the file's bounds are the FILE's
        "bigfile": ("double", [[(i % 10) / 10.0 for i in range(1000)] + [NAN if i == 500 else 2000.0 + i for i in range(1000)] + [0.5] * 100,
                               [0.5] * 1000 + [NAN if i == 700 else 0.5 for i in range(1000)] + [0.5] * 100,
                               [float(i) for i in range(1000)] + [5000.0 + i for i in range(1000)] + [-7.0]],
                    [0.5, 2500.0, 5500.0, -7.0]),
        # literal of ANOTHER type than the column (where pyarrow itself accepts the comparison on the unpruned read)
        "mixed_date": ("date", [[date(2024, 1, 3), date(2024, 1, 5)], [date(2024, 1, 3)], [None, date(2023, 12, 31)]],
                       [datetime(2024, 1, 3, 12, 0, 0), datetime(2024, 1, 3, 0, 0, 0), datetime(2024, 1, 5, 23, 59, 59), datetime(2023, 12, 31, 0, 0, 1)]),
        "mixed_ts": ("timestamp", [[datetime(2024, 1, 3, 0, 0, 0), datetime(2024, 1, 3, 12, 0, 0)], [datetime(2024, 1, 2, 23, 59, 59, 999999), None]],
                     [date(2024, 1, 3), date(2024, 1, 4), date(2024, 1, 2)]),
        "mixed_int": ("long", [[1, 1], [2, 3], [None, 2 ** 53 + 1], [-5, 5]], [1.0, 1.5, 2.5, float(2 ** 53), -5.0, True]),
        "mixed_float": ("double", [[1.0, 1.0], [1.5, 2.5], [NAN, 3.0], [float(2 ** 53), None]], [1, 2, 3, 2 ** 53, 2 ** 53 + 1, False]),
        "int": ("long", [[1, 1], [None, 2 ** 53 + 1, 2 ** 53], [-5, 5], [None]], [1, 2 ** 53, 2 ** 53 + 1, 0]),
        "str": ("string", [["10", "9"], ["a", None], ["é", "z"], [""], ["u" * 40 + "a", "u" * 40 + "z"], ["u" * 17, "u" * 33]],
                ["9", "10", "a", "", "z", "u" * 40 + "m", "u" * 40 + "z", "u" * 20]),
        "float32": ("float", [[0.1, 0.2], [NAN, 1.5], [16777216.0, 16777217.0]], [0.1, 0.2, 1.5, 16777216.0]),
        "date": ("date", [[date(2024, 1, 1), date(2024, 12, 31)], [None, date(1969, 12, 31)]],
                 [date(2024, 1, 1), date(2024, 6, 1), date(1969, 12, 31)]),
        "timestamp": ("timestamp", [[datetime(2024, 1, 1, 12, 0, 0, 1750), datetime(2024, 1, 1, 12, 0, 0, 1000)],
                                    [datetime(2024, 1, 1, 12, 0, 0, 999999), None]],
                      [datetime(2024, 1, 1, 12, 0, 0, 1750), datetime(2024, 1, 1, 12, 0, 0, 1001),
                       datetime(2024, 1, 1, 12, 0, 0, 999999)]),
        "bool": ("boolean", [[True, True], [False, None], [True, False]], [True, False]),
    }
    ice, files, lits = grids[kind]
    ops = ["==", "!=", "<", "<=", ">", ">=", "in", "not_in", "between", "is_null", "is_not_null"]
    if kind == "bool":
        ops = ["==", "!=", "in", "not_in", "is_null", "is_not_null"]
    root = tempfile.mkdtemp(prefix="vf_c13_")
    cases = 0
    samples = []
    try:
        schema = Schema(schema_id=1, fields=[{"id": 1, "name": "k", "type": "long", "required": True},
                                             {"id": 2, "name": "c", "type": ice, "required": False}])
        t = create_table(root + "/t", schema=schema)
        k = 0
        for rows in files:
            recs = []
            for r in rows:
                recs.append({"k": k, "c": r})
                k += 1
            t.append_records(recs)
        # an append passing an explicit schema argument whose field ids are numbered differently: a correct validator refuses
        # it; if it is accepted its bounds must still be found under the ids the pruner looks up
        try:
            renum = Schema(schema_id=1, fields=[{"id": 2, "name": "k", "type": "long", "required": True}, {"id": 1, "name": "c", "type": ice, "required": False}])
            recs = [{"k": k, "c": files[0][0]}, {"k": k + 1, "c": files[0][-1]}]
            t.append_records(recs, schema=renum)
            files = files + [[files[0][0], files[0][-1]]]
        except Exception:  # noqa
            pass
        real_prune = flt.prune_files_by_bounds
        for op in ops:
            for v in lits:
                if op in ("in", "not_in"):
                    conds = [(op, [v]), (op, [v, None]), (op, [])]
                elif op == "between":
                    conds = [(op, (v, w)) for w in lits]
                elif op in ("is_null", "is_not_null"):
                    conds = [(op, True)]
                else:
                    conds = [(op, v)]
                for cond in conds:
                    if any(isinstance(e, float) and e != e for e in (cond[1] if isinstance(cond[1], (list, tuple)) else [cond[1]])):
                        continue
                    try:
                        flt.prune_files_by_bounds = lambda dfs, ex, sc: dfs
                        full = sorted(r["k"] for r in t.scan(filter={"c": cond}))
                    except Exception:
                        continue  # pyarrow itself rejects this literal on the unpruned read: outside the claim
                    finally:
                        flt.prune_files_by_bounds = real_prune
                    pruned = sorted(r["k"] for r in t.scan(filter={"c": cond}))
                    cases += 1
                    if len(samples) < 3:
                        samples.append({"filter": repr(cond), "rows": len(full)})
                    if pruned != full:
                        cex = {"harness": f"e2e.grid_{kind}", "fn": "vf.props.c13:e2e_grid", "kwargs": {"kind": kind},
                               "engine": "native", "message": f"{kind} column, filter c {cond!r}: pruned scan returned keys "
                               f"{pruned} but the unpruned scan returns {full} (files={files})",
                               "signature": f"e2e:{kind}:{op}", "replayed": True}
                        return {"status": "violation", "cex": cex, "cexs": [cex], "paths": cases, "nontrivial": cases,
                                "queries": 0, "solver_s": 0.0, "exhaustive": False, "detail": cex["message"][:300]}
    finally:
        shutil.rmtree(root, ignore_errors=True)
    return {"status": "holds", "paths": cases, "nontrivial": cases, "queries": 0, "solver_s": 0.0, "exhaustive": True,
            "crosschecks": cases + n_shim, "samples": samples, "detail": f"{cases} concrete filter cases, {n_shim} shim-vs-pyarrow cases",
            "functions": []}


SCALAR_OPS = ["==", "!=", "<", "<=", ">", ">=", "is_null", "is_not_null"]


def _row_plans(kind, tier):
    """(rows per file, name suffix, inconclusive allowed).  Float files: 2 rows carry the verdict; 3 symbolic doubles per file (thorough tier)
    leave CrossHair with undecided float paths in most operators ('Not confirmed') and are bug-hunting only."""
    if kind == "str":
        return [(2, "", False)]
    if kind == "float":
        return [(2, "", False)] if tier == "quick" else [(2, "", False), (3, "3", True)]
    return [(3, "", False)]


def obligations(tier):
    obs = []
    T = 240 if tier == "quick" else 900
    for op in SCALAR_OPS:
        for kind in ("int", "float", "str", "bool"):
            if kind == "bool" and op in ("<", "<=", ">", ">="):
                continue
            if tier == "quick" and kind in ("str", "bool") and op not in ("==", "!=", "<", ">="):
                continue
            for nr, sfx, inc in _row_plans(kind, tier):
                obs.append(Ob(f"sym.{kind}{sfx}.{op}", f"vf.props.c13:{kind}_scalar", {"OP": op, "NROWS": nr}, engine="crosshair", timeout=T,
                              bounds=f"{kind} column, {nr} rows Optional[{kind}]"
                                     f"{' len<=2' if kind == 'str' else ''}, symbolic literal, operator {op}",
                              weight=5 if kind in ("float", "str") else 3, allow_inconclusive=inc))
    for op in ("==", ">", ">=", "<", "<="):
        obs.append(Ob(f"sym.strlong.{op}", "vf.props.c13:strlong_scalar", {"OP": op}, engine="crosshair", timeout=T,
                      bounds=f"string column, 2 rows = 40-char common prefix + symbolic suffix (len <= 1), literal likewise, operator {op}", weight=4))
    for op in ("in", "not_in"):
        for kind in ("int", "float", "str"):
            if tier == "quick" and kind == "str":
                continue
            for nr, sfx, inc in _row_plans(kind, tier):
                for n in (0, 1, 2):
                    obs.append(Ob(f"sym.{kind}{sfx}.{op}.n{n}", f"vf.props.c13:{kind}_list{n}", {"OP": op, "NROWS": nr},
                                  engine="crosshair", timeout=T if n < 2 else T * 2,
                                  bounds=f"{kind} column, {nr} rows, literal list of exactly {n} Optional values (no NaN), operator {op}",
                                  weight=6 + n, allow_inconclusive=inc or (kind == "float" and n == 2)))
    for kind in ("int", "float", "str"):
        if tier == "quick" and kind == "str":
            continue
        for nr, sfx, inc in _row_plans(kind, tier):
            obs.append(Ob(f"sym.{kind}{sfx}.between", f"vf.props.c13:{kind}_between", {"OP": "between", "NROWS": nr}, engine="crosshair",
                          timeout=T, bounds=f"{kind} column, {nr} rows, symbolic (lo, hi)", weight=6, allow_inconclusive=inc))
    pairs = [("==", "<"), ("!=", ">=")] if tier == "quick" else [(a, b) for a in ("==", "!=", "<", ">=") for b in ("<", "<=", ">", "==")]
    for a, b in pairs:
        obs.append(Ob(f"sym.conj.{a}.{b}", "vf.props.c13:int_conj", {"OP": a, "OP2": b}, engine="crosshair", timeout=T,
                      bounds="two int columns x 2 rows, conjunction of two conditions", weight=4))
    obs.append(Ob("sym.ts_bound_roundtrip", "vf.props.c13:ts_bound_roundtrip", {}, engine="crosshair", timeout=40 if tier == "quick" else 600, allow_inconclusive=True,
                  bounds="timestamp bound with symbolic microsecond (0..999999) and second: decode(encode(v)) == v (real json); "
                         "verdict if CrossHair's datetime model finishes, else bug-hunting only", weight=3))
    kinds = ["float", "int", "str", "float32", "timestamp"] if tier == "quick" else ["float", "int", "str", "float32", "date", "timestamp", "bool"]
    kinds += ["bigfile", "mixed_date", "mixed_ts", "mixed_int", "mixed_float"]
    for kind in kinds:
        obs.append(Ob(f"e2e.grid_{kind}", "vf.props.c13:e2e_grid", {"kind": kind}, engine="native", timeout=300,
                      bounds=f"concrete boundary grid, {kind} column, all operators, real pyarrow/json/fastavro/local backend",
                      weight=2))
    return obs


# ---- bound round trip of temporal values with a SYMBOLIC sub-second part (real _encode_bound/_decode_bound, real json) --------
def ts_bound_roundtrip(us: int, sec: int) -> bool:
    """
    pre: 0 <= us <= 999999 and 0 <= sec <= 59
    post: _
    """
    import datetime as _dt
    v = _dt.datetime(2024, 1, 1, 12, 0, sec, us)
    back = FileManager._decode_bound(FileManager._encode_bound(v))
    return isinstance(back, _dt.datetime) and back == v and back.microsecond == us


def ts_bound_roundtrip__samples():
    return [(0, 0), (1, 0), (999, 59), (1000, 1), (1750, 0), (999999, 59), (123456, 30)]
