"""C20(c) - program equivalence: the real S3StorageBackend over FakeS3 vs the real LocalStorageBackend over FakeOS.

E2 (symx): a solver-chosen program of <= N operations over a small key space runs against both backends; every
observable result must agree (contents, existence of exact keys only, table-relative listings confined to the named
directory, sizes, not-found errors).  Fault obligation: a solver-chosen S3 request of a solver-chosen operation fails
with a run of k transient errors (k within the retry budget: masked, same result) or one permanent error (must surface
at once - exactly one attempt - and never be swallowed into an answer).  Finite choices: the solver is a case-splitter
here (stated)."""
from vf.rigs.env import Env
from vf.rigs.fakes3 import cerr
from vf.runner import Ob

KEYS = ["data/a", "data/b", "data2/a", "database", "metadata/manifests/m", "metadata/manifests_old/m", "metadata/x"]
DIRS = ["data", "metadata/manifests", "metadata", "nodir"]
OPS = ["write", "read", "exists", "list", "delete", "size", "open", "mtime_order"]


def _both(sp, prefix):
    el = Env(sp, rig="L", root="/wh/tbl", clock="tick")
    return el


def _apply(st, op, key, d, payload):
    try:
        if op == "write":
            st.write_file(key, payload)
            return ("ok", None)
        if op == "read":
            return ("ok", st.read_file(key))
        if op == "exists":
            return ("ok", st.exists(key))
        if op == "list":
            return ("ok", sorted(st.list_files(d)))
        if op == "delete":
            st.delete_file(key)
            return ("ok", None)
        if op == "size":
            return ("ok", st.get_size(key))
        if op == "open":
            with st.open_file(key) as f:
                return ("ok", f.read())
        if op == "mtime_order":
            st.get_modified_time(key)
            return ("ok", None)
    except FileNotFoundError:
        return ("notfound", None)
    except Exception as ex:  # noqa
        return ("exc", type(ex).__name__)
    raise ValueError(op)


def equivalence(sp, N=3, prefix="p", first=None, first_key=None):
    import datashard.storage_backend as sb
    # two worlds in one path: the local backend over FakeOS and the S3 backend over FakeS3
    with Env(sp, rig="L", root="/wh/tbl", clock="tick") as el:
        local = sb.LocalStorageBackend("/wh/tbl")
        el.fos.mkdir_durable("/wh/tbl")
        from vf.rigs.fakes3 import FakeS3
        s3c = FakeS3(el.world)
        el.s3 = s3c
        el.s3_prefix = prefix
        s3 = el.s3_backend(prefix=prefix)
        prog = []
        for i in range(N):
            if i == 0 and first is not None:
                op = first
            else:
                op = OPS[sp.choose(len(OPS), name=f"op{i}")]
            key = first_key if (i == 0 and first_key is not None) else KEYS[sp.choose(len(KEYS), name=f"key{i}")]
            d = DIRS[sp.choose(len(DIRS), name=f"dir{i}")] if op == "list" else None
            payload = (f"payload-{i}-" + "x" * i).encode()
            prog.append((op, key if op != "list" else d))
            rl = _apply(local, op, key, d, payload)
            rs = _apply(s3, op, key, d, payload)
            sp.note("program", list(prog))
            sp.require(rl == rs, f"prefix {prefix!r}: after {prog[:-1]} the operation {op}({key if op != 'list' else d}) gives {rl} on the local backend "
                       f"but {rs} on S3", {"sig": f"diverge:{op}"})
            if op == "list" and rs[0] == "ok":
                sp.require(all(k.startswith(d + "/") for k in rs[1]), f"S3 listing of {d} returned entries outside it: {rs[1]}", {"sig": "list-not-confined"})
        sp.reach("ran")


def faults(sp, prefix="p", kind="transient"):
    with Env(sp, rig="S", s3_prefix=prefix, clock="tick") as e:
        w = e.world
        st = e.s3_backend(prefix=prefix)
        st.write_file("data/a", b"AAAA")
        for extra in ("b", "c", "d", "e"):
            st.write_file(f"data/{extra}", b"B")  # the listing of data/ spans three S3 pages
        st.write_file("metadata/x", b"XX")
        ops = ["read", "exists", "exists_missing", "list", "delete", "size", "open", "mtime", "write", "exists_dir"]
        op = ops[sp.choose(len(ops), name="op")]

        def run():
            try:
                if op == "read":
                    return ("ok", st.read_file("data/a"))
                if op == "exists":
                    return ("ok", st.exists("data/a"))
                if op == "exists_missing":
                    return ("ok", st.exists("data/zz"))
                if op == "exists_dir":
                    return ("ok", st.exists("data/"))
                if op == "list":
                    return ("ok", sorted(st.list_files("data")))
                if op == "delete":
                    st.delete_file("metadata/x")
                    return ("ok", st.exists("metadata/x"))
                if op == "size":
                    return ("ok", st.get_size("data/a"))
                if op == "open":
                    with st.open_file("data/a") as f:
                        return ("ok", f.read())
                if op == "mtime":
                    st.get_modified_time("data/a")
                    return ("ok", None)
                if op == "write":
                    st.write_file("data/n", b"NEW")
                    return ("ok", st.read_file("data/n"))
            except FileNotFoundError:
                return ("notfound", None)
            except Exception as ex:  # noqa
                return ("exc", type(ex).__name__)

        # fault-free reference on an identical twin store
        with Env.__new__(Env).__class__(sp, rig="S", s3_prefix=prefix, clock="tick") if False else _Null():
            pass
        import copy
        snapshot = dict(e.s3.o)
        ref = run()
        e.s3.o.clear()
        e.s3.o.update(snapshot)
        for k in ("data/n",):
            e.s3.o.pop((prefix + "/" if prefix else "") + k, None)
        # inject: the r-th request of the operation fails k times in a row (transient) or once (permanent)
        r = sp.choose(4, name="request_index")
        k = 1 + sp.choose(5, name="run_length") if kind == "transient" else 1
        state = {"seen": 0, "left": k, "hit_label": None, "attempts_after": 0}
        code = {"transient": "SlowDown", "permanent": "AccessDenied", "permanent403": "403"}[kind]

        def cb(w_, label, info, a):
            if label.endswith("<"):
                return
            if state["hit_label"] is None:
                if state["seen"] == r:
                    state["hit_label"] = label
                state["seen"] += 1
            if state["hit_label"] == label and state["left"] > 0 and state["seen"] > r:
                state["left"] -= 1
                raise cerr(code, "Op", 503 if kind == "transient" else 403)
            elif state["hit_label"] is not None and state["left"] == 0:
                state["attempts_after"] += 1
        w.callbacks.append(cb)
        n0 = len(e.s3.req_log)
        got = run()
        w.callbacks.clear()
        fired = state["hit_label"] is not None and state["left"] < k
        sp.note("op", op)
        sp.note("fault", f"{kind} x{k} at request #{r} ({state['hit_label']})")
        sp.reach("ran")
        if not fired:
            sp.require(got == ref, f"{op}: no fault delivered but result {got} != reference {ref}", {"sig": "nofault-differs"})
            return
        if kind == "transient":
            sp.require(got == ref, f"{op}: {k} transient error(s) at request #{r} ({state['hit_label']}) within the retry budget changed the result: "
                       f"{got} instead of {ref}", {"sig": f"transient-not-masked:{op}"})
        else:
            sp.require(got[0] == "exc" and got[1] == "ClientError", f"{op}: a permanent {code} at request #{r} ({state['hit_label']}) did not surface: the call "
                       f"answered {got}", {"sig": f"permanent-swallowed:{op}"})
            same = [x for x in e.s3.req_log[n0:] if x[1] == state["hit_label"]]
            # surfaces immediately: the failing request is not repeated
            sp.require(state["attempts_after"] == 0, f"{op}: the permanent error was retried / followed by {state['attempts_after']} more request(s)",
                       {"sig": f"permanent-retried:{op}"})


def paging(sp, prefix="p"):
    """Listings longer than one S3 page (FakeS3 pages hold 2 keys, both through the paginator and through raw list_objects_v2 with
    NextContinuationToken): a directory with n objects (n solver-chosen, 0..6) lists identically on both backends."""
    import datashard.storage_backend as sb
    with Env(sp, rig="L", root="/wh/tbl", clock="tick") as el:
        local = sb.LocalStorageBackend("/wh/tbl")
        el.fos.mkdir_durable("/wh/tbl")
        from vf.rigs.fakes3 import FakeS3
        el.s3 = FakeS3(el.world)
        s3 = el.s3_backend(prefix=prefix)
        n = sp.choose(7, name="n_objects")
        d = ["data", "metadata/inflight", "metadata/manifests"][sp.choose(3, name="dir")]
        for i in range(n):
            for st in (local, s3):
                st.write_file(f"{d}/obj{i:02d}", b"x")
        for st in (local, s3):
            st.write_file("zzz/other", b"y")
        a, b = sorted(local.list_files(d)), sorted(s3.list_files(d))
        sp.note("n", n)
        sp.reach("ran")
        sp.require(a == b and len(b) == n, f"prefix {prefix!r}: {d} holds {n} objects; the local backend lists {len(a)}, the S3 backend {len(b)}: {b}",
                   {"sig": "list-paging"})


class _Null:
    def __enter__(self):
        return self

    def __exit__(self, *a):
        return False


def obligations(tier):
    obs = []
    T = 400 if tier == "quick" else 1500
    prefixes = ["p"] if tier == "quick" else ["", "p", "p/q", "data"]
    if tier == "quick":
        for pfx in prefixes:
            for f in OPS:
                obs.append(Ob(f"c.equiv.pfx[{pfx}].{f}.N2", "vf.props.c20c:equivalence", {"N": 2, "prefix": pfx, "first": f, "_must_reach": ["ran"], "_sample_every": 100},
                              timeout=T, bounds=f"S3 prefix {pfx!r}; every program of 2 operations starting with {f} over {len(OPS)} operation kinds x {len(KEYS)} keys "
                                                f"(x {len(DIRS)} directories for listings)", weight=4))
        obs.append(Ob("c.equiv.pfx[p].write.data_a.N3", "vf.props.c20c:equivalence", {"N": 3, "prefix": "p", "first": "write", "first_key": "data/a", "_must_reach": ["ran"], "_sample_every": 500},
                      timeout=T, bounds="programs of 3 operations starting with write(data/a)", weight=6))
    else:
        for pfx in prefixes:
            for f in ("write", "delete", "list"):
                for fk in KEYS:
                    obs.append(Ob(f"c.equiv.pfx[{pfx}].{f}.{fk.replace('/', '_')}.N3", "vf.props.c20c:equivalence",
                                  {"N": 3, "prefix": pfx, "first": f, "first_key": fk, "_sample_every": 500}, timeout=T,
                                  bounds=f"S3 prefix {pfx!r}; every program of 3 operations starting with {f}({fk})", weight=5))
    for pfx in (["p"] if tier == "quick" else ["", "p", "p/q"]):
        obs.append(Ob(f"c.paging.pfx[{pfx}]", "vf.props.c20c:paging", {"prefix": pfx, "_must_reach": ["ran"]}, timeout=T,
                      bounds=f"S3 prefix {pfx!r}: directory listings of 0..6 objects (S3 page size 2) in 3 directories", weight=2))
    for kind in ("transient", "permanent", "permanent403"):
        obs.append(Ob(f"c.faults.{kind}", "vf.props.c20c:faults", {"kind": kind, "_must_reach": ["ran"]}, timeout=T,
                      bounds=f"each of 10 operations x fault at its 1st..4th S3 request (listings span 3 pages): {'1..5 consecutive transient errors' if kind == 'transient' else 'one permanent error (' + kind + ')'}",
                      weight=3))
    return obs
