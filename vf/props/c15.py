"""C15 - table metadata stays well-formed through every history.

(a) E1 (CrossHair) inductive steps on the pure mutators, from ARBITRARY small metadata states:
      repoint_parents_to_surviving_ancestors on all forests (incl. cycles, dangling parents),
      SnapshotManager._apply_retention, the expire mutator, MetadataManager._append_metadata_log.
(b) E2 (symx) histories with the invariant checker after every step (real create_snapshot / delete_snapshot /
    expire / retention property / metadata-log bound / manifest rewrites)."""
from typing import Optional

from datashard.data_structures import HistoryEntry, Snapshot, TableMetadata
from datashard.metadata_manager import MetadataManager
from datashard.snapshot_manager import SNAPSHOT_RETENTION_PROPERTY, SnapshotManager, repoint_parents_to_surviving_ancestors
from datashard.transaction import Transaction

from vf.props import history as H
from vf.rigs.env import Env
from vf.runner import Ob

LEVEL = "other"
TECHNIQUE = ('CrossHair (z3) inductive steps on the pure metadata mutators from arbitrary small states + symx over solver-chosen histories with an independent invariant checker')
EXPLANATION = (
    "CrossHair/z3 on the pure metadata mutators from arbitrary small states (all parent forests of <= 3/4 nodes "
    "incl. cycles and dangling parents; symbolic timestamps, retention counts, current ids, log bounds), verdict "
    "'Confirmed over all paths'; symx/z3 exploration of all operation histories up to the length bound with the "
    "independent invariant checker run on the stored metadata JSON and manifest entries after every step.")
RULE = "E1: one z3 query; E2: one explored history; non-trivial = solver decided a branch / chose an operation"
ASSUMPTIONS = [
    "E1 states: <= 4 snapshots, timestamps in [0, 10], retention count in [-2, 5], metadata-log bound strings from a finite list",
    "a metadata-log bound <= 0 means 'no trimming' in the code and is not constrained (0 is not a meaningful bound)",
    "histories up to the stated length",
]
TRUSTED = ["CrossHair 0.0.110", "z3 5.1", "vf.symx", "rigs"]

NN = 3
KEPT = -1  # thorough: kept-mask fixed per obligation (partition); -1 = symbolic


def _ancestors(parent_of, x):
    out, seen, p = [], set(), parent_of.get(x)
    while p is not None and p != -1 and p not in seen:
        seen.add(p)
        out.append(p)
        p = parent_of.get(p)
    return out


def repoint_ok(p0: int, p1: int, p2: int, p3: int, k0: bool, k1: bool, k2: bool, k3: bool) -> bool:
    """
    pre: all(-2 <= p <= NN for p in (p0, p1, p2, p3))
    pre: NN >= 4 or (p3 == -2 and not k3)
    pre: KEPT < 0 or (k0, k1, k2, k3) == (bool(KEPT & 1), bool(KEPT & 2), bool(KEPT & 4), bool(KEPT & 8))
    post: _
    """
    # ids 0..NN-1 ; parent code: -2 -> None, -1 -> -1, NN -> dangling id 99
    dec = lambda p: None if p == -2 else (99 if p == NN else p)
    ps = [dec(p0), dec(p1), dec(p2), dec(p3)][:NN]
    snaps = [Snapshot(i, 0, "ml", parent_snapshot_id=ps[i]) for i in range(NN)]
    parent_of = {i: ps[i] for i in range(NN)}
    kept = [s for s, k in zip(snaps, (k0, k1, k2, k3)) if k]
    kept_ids = {s.snapshot_id for s in kept}
    repoint_parents_to_surviving_ancestors(snaps, kept)
    for s in kept:
        np_ = s.parent_snapshot_id
        anc = _ancestors(parent_of, s.snapshot_id)
        surv = [a for a in anc if a in kept_ids]
        if np_ is None or np_ == -1:
            # the link may be dropped only when no surviving TRUE ancestor exists (chain ended, dangling, or cycle)
            if surv and s.snapshot_id not in anc:
                return False
            continue
        if np_ not in kept_ids:
            return False  # dangling parent after repointing
        if not surv or surv[0] != np_:
            return False  # not the nearest surviving true ancestor
    return True


def repoint_ok__samples():
    return [(-2, 0, 1, -2, True, False, True, False), (-1, 0, 1, -2, False, False, True, False), (1, 0, -2, -2, True, True, False, False),
            (3, 0, 1, -2, False, True, True, False)]


def retention_ok(t0: int, t1: int, t2: int, t3: int, cur: int, keep: int, p1: int, p2: int, p3: int) -> bool:
    """
    pre: 0 <= t0 <= t1 <= t2 <= t3 <= 10
    pre: 0 <= cur <= 3 and -2 <= keep <= 5
    pre: -1 <= p1 < 1 and -1 <= p2 < 2 and -1 <= p3 < 3
    post: _
    """
    ts = [t0, t1, t2, t3]
    ps = [-1, p1, p2, p3]
    snaps = [Snapshot(10 + i, ts[i], f"ml{i}", parent_snapshot_id=(None if ps[i] < 0 else 10 + ps[i]), sequence_number=i + 1) for i in range(4)]
    md = TableMetadata(location="x", table_uuid="u", last_sequence_number=4, last_updated_ms=0)
    md.snapshots = list(snaps)
    md.current_snapshot_id = 10 + cur
    md.snapshot_log = [HistoryEntry(s.timestamp_ms, s.snapshot_id) for s in snaps]
    md.properties = {SNAPSHOT_RETENTION_PROPERTY: str(keep)}
    anc = {}
    for i in range(4):
        a, p = [], ps[i]
        while p >= 0:
            a.append(10 + p)
            p = ps[p]
        anc[10 + i] = a
    SnapshotManager(None)._apply_retention(md)
    ids = [s.snapshot_id for s in md.snapshots]
    if 10 + cur not in ids:
        return False  # the current snapshot is never dropped
    if md.current_snapshot_id != 10 + cur:
        return False
    if keep >= 1 and len(ids) > keep + 1:
        return False
    if keep < 1 and len(ids) != 4:
        return False
    for s in md.snapshots:
        p = s.parent_snapshot_id
        surv = [a for a in anc[s.snapshot_id] if a in ids]
        if p is None or p == -1:
            if surv:
                return False
        elif p not in ids or not surv or surv[0] != p:
            return False
    if [e.snapshot_id for e in md.snapshot_log] != [i for i in (10, 11, 12, 13) if i in ids]:
        return False
    seqs = [s.sequence_number for s in sorted(md.snapshots, key=lambda s: s.snapshot_id)]
    return all(a < b for a, b in zip(seqs, seqs[1:]))


def retention_ok__samples():
    return [(0, 1, 2, 3, 3, 2, 0, 1, 2), (0, 0, 0, 0, 0, 1, 0, 1, 2), (1, 1, 2, 2, 1, 1, -1, 0, 0), (0, 1, 2, 3, 3, 0, 0, 1, 2)]


def expire_ok(t0: int, t1: int, t2: int, t3: int, cur: int, cutoff: int, p1: int, p2: int, p3: int) -> bool:
    """
    pre: 0 <= t0 <= t1 <= t2 <= t3 <= 6 and 0 <= cur <= 3 and -1 <= cutoff <= 8
    pre: -1 <= p1 < 1 and -1 <= p2 < 2 and -1 <= p3 < 3
    post: _
    """
    ts = [t0, t1, t2, t3]
    ps = [-1, p1, p2, p3]
    snaps = [Snapshot(10 + i, ts[i], f"ml{i}", parent_snapshot_id=(None if ps[i] < 0 else 10 + ps[i]), sequence_number=i + 1) for i in range(4)]
    md = TableMetadata(location="x", table_uuid="u", last_sequence_number=4, last_updated_ms=0)
    md.snapshots = list(snaps)
    md.current_snapshot_id = 10 + cur
    md.snapshot_log = [HistoryEntry(s.timestamp_ms, s.snapshot_id) for s in snaps]
    anc = {}
    for i in range(4):
        a, p = [], ps[i]
        while p >= 0:
            a.append(10 + p)
            p = ps[p]
        anc[10 + i] = a
    Transaction._make_expire_mutator(cutoff)(md)
    ids = [s.snapshot_id for s in md.snapshots]
    expect = [10 + i for i in range(4) if ts[i] >= cutoff or i == cur]
    if ids != expect:
        return False
    for s in md.snapshots:
        p = s.parent_snapshot_id
        surv = [a for a in anc[s.snapshot_id] if a in ids]
        if p is None or p == -1:
            if surv:
                return False
        elif p not in ids or not surv or surv[0] != p:
            return False
    return [e.snapshot_id for e in md.snapshot_log] == ids


def expire_ok__samples():
    return [(0, 1, 2, 3, 3, 2, 0, 1, 2), (0, 0, 0, 0, 0, 1, 0, 1, 2), (0, 1, 2, 3, 0, 9, 0, 1, 2)]


BOUNDS = ["1", "2", "3", "0", "-1", "x", "", None, " 2", "2.0"]
BI = 0


def metadata_log_ok(n: int, dup: bool) -> bool:
    """
    pre: 0 <= n <= 4
    post: _
    """
    raw = BOUNDS[BI]
    md = TableMetadata(location="x", table_uuid="u")
    base = TableMetadata(location="x", table_uuid="u", last_updated_ms=77)
    md.metadata_log = [{"timestamp-ms": i, "metadata-file": f"metadata/v{i}.metadata.json"} for i in range(n)]
    if raw is not None:
        md.properties = {MetadataManager.PREVIOUS_VERSIONS_MAX_PROPERTY: raw}
    prev = f"v{n - 1}.metadata.json" if (dup and n > 0) else f"v{n}.metadata.json"
    mm = MetadataManager.__new__(MetadataManager)
    mm.metadata_path = "metadata"
    mm._append_metadata_log(md, base, prev)
    log = md.metadata_log
    try:
        bound = int(raw) if raw is not None else 100
    except (TypeError, ValueError):
        bound = 100
    if dup and n > 0:
        return len(log) == n  # already recorded: unchanged
    if log[-1] != {"timestamp-ms": 77, "metadata-file": f"metadata/v{n}.metadata.json"}:
        return False
    if bound >= 1:
        if len(log) != min(n + 1, bound):
            return False
    elif len(log) != n + 1:
        return False
    # the kept entries are the most recent ones, in order
    names = [e["metadata-file"] for e in log]
    return names == [f"metadata/v{i}.metadata.json" for i in range(n + 1)][-len(log):]


def metadata_log_ok__samples():
    return [(0, False), (3, False), (4, True), (1, False)]


def inv_history(sp, rig="M", L=3, first=None, second=None, ops=None):
    with Env(sp, rig=rig, clock="tick") as e:
        ops = ops or ["append", "append2", "delete", "replace", "expire", "delsnap", "set_retention", "set_logmax", "contended_commit", "reappend"]
        h = H.History(sp, e, ops, checks=[H.check_state, H.check_invariant])
        h.ops = ["append2"]
        h.step(-2)
        h.ops = ["append"]
        h.step(-1)
        h.ops = ops
        if first is not None:
            h.ops = [first]
            h.step(0)
            k0 = 1
            if second is not None:
                h.ops = [second]
                h.step(1)
                k0 = 2
            h.ops = ops
            for k in range(k0, L):
                h.step(k)
        else:
            h.run(L)
        sp.note("history", list(h.trail))
        sp.reach("ran")


def obligations(tier):
    obs = []
    T = 300 if tier == "quick" else 1500
    if tier == "quick":
        obs.append(Ob("a.repoint.3nodes", "vf.props.c15:repoint_ok", {"NN": 3}, engine="crosshair", timeout=T,
                      bounds="all parent forests over 3 snapshots (parents incl. None, -1, dangling, cycles) x all kept subsets", weight=7))
    else:
        for m in range(16):
            obs.append(Ob(f"a.repoint.4nodes.kept{m:02d}", "vf.props.c15:repoint_ok", {"NN": 4, "KEPT": m}, engine="crosshair", timeout=T,
                          bounds=f"all parent forests over 4 snapshots, kept subset mask {m:04b}", weight=7))
    obs.append(Ob("a.retention", "vf.props.c15:retention_ok", {}, engine="crosshair", timeout=max(T, 400),
                  bounds="4 snapshots, non-decreasing symbolic timestamps, symbolic current, retention count in [-2,5], symbolic parent structure", weight=9))
    obs.append(Ob("a.expire_mutator", "vf.props.c15:expire_ok", {}, engine="crosshair", timeout=max(T, 400),
                  bounds="4 snapshots, symbolic timestamps, current, cut-off and parent structure", weight=9))
    for bi, b in enumerate(BOUNDS):
        obs.append(Ob(f"a.metadata_log.bound{bi}", "vf.props.c15:metadata_log_ok", {"BI": bi}, engine="crosshair", timeout=T,
                      bounds=f"metadata-log bound property {b!r}, log of 0..4 entries, retried-commit duplicate or new entry", weight=2))
    all_ops = ["append", "append2", "delete", "replace", "expire", "delsnap", "set_retention", "set_logmax", "contended_commit", "reappend"]
    if tier == "quick":
        for f in all_ops:
            obs.append(Ob(f"b.history.M.{f}.L2", "vf.props.c15:inv_history", {"rig": "M", "L": 2, "first": f, "_must_reach": ["ran"], "_sample_every": 25},
                          timeout=T, bounds=f"in-memory store, 2-file append + append, then {f} + 1 solver-chosen operation", weight=4))
        obs.append(Ob("b.history.L.L2", "vf.props.c15:inv_history", {"rig": "L", "L": 2, "ops": ["replace", "delete", "delsnap", "expire"], "_must_reach": ["ran"]},
                      timeout=T, bounds="rig L, 2 operations from replace/delete/delsnap/expire", weight=4))
    else:
        # sized from a measured run: below ONE first operation the in-memory L=4 sub-tree holds > 30 k histories (not exhausted in 40 min);
        # partitioned by its first TWO operations each piece is ~3 k histories
        for f in all_ops:
            for g in all_ops:
                obs.append(Ob(f"b.history.M.{f}.{g}.L4", "vf.props.c15:inv_history", {"rig": "M", "L": 4, "first": f, "second": g, "_sample_every": 200}, timeout=900,
                              bounds=f"in-memory store, then {f}, {g} + 2 solver-chosen operations", weight=6, allow_inconclusive=True))
            obs.append(Ob(f"b.history.L.{f}.L3", "vf.props.c15:inv_history", {"rig": "L", "L": 3, "first": f, "_sample_every": 100}, timeout=1200,
                          bounds=f"rig L, then {f} + 2 solver-chosen operations", weight=8))
    return obs
