"""C11 - accepted appends are exact; rejected ones leave no trace; scans keep working.

(a) E1 (CrossHair) schema-argument acceptance: table schema S (2-3 fields), argument S' = symbolic permutation, id
    re-assignment, type / required changes, extra / missing field.  Real Transaction._validate_schema_against_table /
    _schema_signature and DataFileManager.create_arrow_schema (fresh or primed cache).  accepted => the Arrow schema built
    from S' equals the table's (names, ORDER, types, nullability - what concat_tables needs) AND every column keeps its
    field id (bounds are attached to the id the pruner looks up).
(b) E1 validate_records_strict: symbolic records; accepted => no unknown key, no None / missing required field.
(c) E2 (symx) over the real Table API on Rig L: solver-chosen (schema-argument variant x handle freshness x record
    variant); raise => table content, snapshot list and reachable files unchanged; success => later scans return every
    row exactly as supplied and filtered scans on every column find it.
(d) E2 append_files with pre-built parquet files whose footer schema deviates (order, type, nullability, extra column).
Value-level coercions are decided inside pyarrow's C++ conversion, which no Python-level symbolic executor sees; they
are covered by the concrete value classes of (c) only (boundary ints, fractional floats into integer columns, inf into
32-bit floats, datetimes into date columns, unicode, None)."""
import datetime
import decimal

from datashard.data_operations import DataFileManager
from datashard.data_structures import DataFile, FileFormat, Schema
from datashard.transaction import Transaction

from vf.oracles import reader
from vf.rigs.env import Env
from vf.runner import Ob

LEVEL = "other"
TECHNIQUE = ('CrossHair (z3) on the real schema-argument / record validation with symbolic schemas and records + symx case-splitting over schema / value / file variants through the real Table API')
EXPLANATION = (
    "CrossHair/z3 on the real schema-argument validation + Arrow schema construction (symbolic permutation, ids, types, "
    "nullability, arity) and on record validation (symbolic records); symx/z3 exploration of (schema variant x handle "
    "freshness x record / value class) and of deviating pre-built files through the real Table API with the "
    "no-trace / exact-rows / filterable oracle; exhaustive within the finite variant lists.")
RULE = "E1: one z3 query; E2: one explored variant combination; non-trivial = solver decided a branch / chose the variants"
ASSUMPTIONS = [
    "schemas of 2-3 primitive fields; records of <= 2 rows over a 3-name alphabet in (b)",
    "value fidelity is examined on the listed concrete value classes only (pyarrow's conversion is C++)",
    "'exactly as supplied' is up to the declared type's representation (e.g. 0.1 in a 32-bit float column reads back as its float32 value)",
]
TRUSTED = ["CrossHair 0.0.110", "z3 5.1", "vf.symx", "pyarrow conversions on concrete values"]

TYPES = ["long", "string", "double"]
NAMES = ["a", "b", "c"]


def _mk(order, ids, types, req):
    return Schema(schema_id=1, fields=[{"id": ids[i], "name": NAMES[i], "type": TYPES[types[i]], "required": bool(req[i])} for i in order])


class _FakeTxn(Transaction):
    def __init__(self, table_schema, dfm=None):
        import types
        self._ts = table_schema
        if dfm is None:
            dfm = DataFileManager.__new__(DataFileManager)
            dfm._arrow_schema_cache = {}
        # the parts of a real handle that validation code may legitimately touch
        self.file_manager = types.SimpleNamespace(data_file_manager=dfm)

    def _resolve_table_schema(self):
        return self._ts


FRESH = 1
PERM = -1
EXTRA = -1


def schema_arg(perm: int, i0: int, i1: int, t0: int, t1: int, r0: int, r1: int, extra: int) -> bool:
    """
    pre: 0 <= perm <= 1 and 1 <= i0 <= 3 and 1 <= i1 <= 3 and i0 != i1
    pre: 0 <= t0 <= 2 and 0 <= t1 <= 2 and 0 <= r0 <= 1 and 0 <= r1 <= 1 and 0 <= extra <= 2
    pre: (PERM < 0 or perm == PERM) and (EXTRA < 0 or extra == EXTRA)
    post: _
    """
    table = _mk([0, 1], [1, 2], [0, 1], [1, 0])
    order = [0, 1] if perm == 0 else [1, 0]
    if extra == 1:
        order = order + [2]  # an extra field
    elif extra == 2:
        order = order[:1]  # a missing field
    arg = _mk(order, [i0, i1, 9], [t0, t1, 0], [r0, r1, 0])
    dfm = DataFileManager.__new__(DataFileManager)
    dfm._arrow_schema_cache = {}
    ref = DataFileManager.__new__(DataFileManager)
    ref._arrow_schema_cache = {}
    tbl_arrow = ref.create_arrow_schema(table)
    if not FRESH:
        dfm.create_arrow_schema(table)  # a reused handle: cache primed with the table schema
    tx = _FakeTxn(table, dfm)
    try:
        tx._validate_schema_against_table(arg)
    except ValueError:
        # rejected: fine - but a rejection must leave no trace in the handle either: what the handle would now write
        # for the TABLE's schema id is still the table's Arrow schema
        return dfm.create_arrow_schema(table).equals(tbl_arrow)
    arg_arrow = dfm.create_arrow_schema(arg)
    if not arg_arrow.equals(tbl_arrow):
        return False  # files written with it make every later scan fail in concat_tables
    tid = {f["name"]: f["id"] for f in table.fields}
    aid = {f["name"]: f["id"] for f in arg.fields}
    return tid == aid  # bounds are stored under the argument's ids, the pruner looks up the table's


def schema_arg__samples():
    return [(0, 1, 2, 0, 1, 1, 0, 0), (0, 1, 2, 0, 0, 1, 0, 0), (0, 1, 2, 0, 1, 0, 0, 0), (0, 1, 2, 0, 1, 1, 0, 1)]


def schema_arg__signature(perm, i0, i1, t0, t1, r0, r1, extra):
    if perm == 1:
        return "schema-arg:reordered-accepted"
    if (i0, i1) != (1, 2):
        return "schema-arg:renumbered-ids-accepted"
    return "schema-arg:other-or-rejection-left-trace"


def records_strict(k0: int, k1: int, v0: int, v1: int, n0: bool, n1: bool, nkeys: int) -> bool:
    """
    pre: 0 <= k0 <= 2 and 0 <= k1 <= 2 and 0 <= nkeys <= 2
    post: _
    """
    schema = Schema(schema_id=1, fields=[{"id": 1, "name": "a", "type": "long", "required": True},
                                         {"id": 2, "name": "b", "type": "long", "required": False}])
    keys = [NAMES[k0], NAMES[k1]][:nkeys]
    vals = [None if n0 else v0, None if n1 else v1][:nkeys]
    rec = dict(zip(keys, vals))
    dfm = DataFileManager.__new__(DataFileManager)
    try:
        dfm.validate_records_strict([rec], schema)
    except ValueError:
        return True
    # accepted => only schema fields, and the required one present and not None
    return all(k in ("a", "b") for k in rec) and rec.get("a") is not None


def records_strict__samples():
    return [(0, 1, 1, 2, False, False, 2), (0, 2, 1, 2, False, False, 2), (0, 1, 1, 2, True, False, 2), (1, 1, 1, 2, False, False, 1)]


# ---------------------------------------------------------------------------------------------- (c) E2
S = Schema(schema_id=1, fields=[{"id": 1, "name": "a", "type": "long", "required": True},
                                {"id": 2, "name": "b", "type": "string", "required": False},
                                {"id": 3, "name": "f", "type": "float", "required": False},
                                {"id": 4, "name": "d", "type": "date", "required": False}])


def _variant_schema(v):
    f = [dict(x) for x in S.fields]
    if v == "identical":
        return Schema(schema_id=1, fields=f)
    if v == "other_schema_id":
        return Schema(schema_id=7, fields=f)
    if v == "reordered":
        return Schema(schema_id=1, fields=[f[1], f[0], f[2], f[3]])
    if v == "renumbered":
        f[0]["id"], f[1]["id"] = 2, 1
        return Schema(schema_id=1, fields=f)
    if v == "type_changed":
        f[1]["type"] = "long"
        return Schema(schema_id=1, fields=f)
    if v == "nullability_changed":
        f[1]["required"] = True
        return Schema(schema_id=1, fields=f)
    if v == "extra_field":
        return Schema(schema_id=1, fields=f + [{"id": 9, "name": "z", "type": "long", "required": False}])
    if v == "missing_field":
        return Schema(schema_id=1, fields=f[:3])
    return None  # omitted


SCHEMA_VARIANTS = ["omitted", "identical", "other_schema_id", "reordered", "renumbered", "type_changed", "nullability_changed", "extra_field", "missing_field"]
RECORDS = {
    "ok": {"a": 5, "b": "x", "f": 0.5, "d": datetime.date(2024, 1, 2)},
    "ok_long_string": {"a": 6, "b": "u" * 40 + "z"},
    "ok_unicode_none": {"a": -(2 ** 63), "b": "é漢", "f": None, "d": None},
    "ok_missing_optional": {"a": 2 ** 63 - 1},
    "unknown_key": {"a": 5, "zz": 1},
    "none_required": {"a": None, "b": "x"},
    "missing_required": {"b": "x"},
    "str_into_long": {"a": "5"},
    "bool_into_long": {"a": True},
    "fraction_into_long": {"a": 1.5},
    "decimal_fraction_into_long": {"a": decimal.Decimal("2.5")},
    "integral_float_into_long": {"a": 3.0},
    "overflow_long": {"a": 2 ** 63},
    "inf_into_float32": {"a": 5, "f": 1e39},
    "float32_representation": {"a": 5, "f": 0.1},
    "datetime_into_date": {"a": 5, "d": datetime.datetime(2024, 1, 2, 13, 45, 0)},
    "int_into_string": {"a": 5, "b": 7},
}


def _same(supplied, got, col, typ):
    if supplied is None:
        return got is None
    if typ == "float" and isinstance(supplied, (int, float)) and not isinstance(supplied, bool):
        import struct
        try:
            f32 = struct.unpack("f", struct.pack("f", float(supplied)))[0]
        except OverflowError:
            return False
        return got == f32 and (abs(f32) != float("inf") or abs(float(supplied)) == float("inf"))
    if typ == "long" and isinstance(supplied, float):
        return supplied.is_integer() and got == int(supplied)
    if typ == "long" and isinstance(supplied, decimal.Decimal):
        return supplied == supplied.to_integral_value() and got == int(supplied)
    if typ == "date" and isinstance(supplied, datetime.datetime):
        return False if (supplied.hour or supplied.minute or supplied.second or supplied.microsecond) else got == supplied.date()
    return got == supplied and type(got) is type(supplied)


def nan_batch(sp, big=False):
    """An accepted batch mixing NaN with finite values in a float column: filtered scans (every operator) still return what the
    unfiltered rows say (no accepted append can make later scans mis-filter).  big: ONE append of 2100 records (the writer handles
    records in chunks of 1000) with the NaN in the middle chunk."""
    from vf.oracles.sql3v import filter_value, matches
    S3 = Schema(schema_id=1, fields=[{"id": 1, "name": "a", "type": "long", "required": True}, {"id": 2, "name": "x", "type": "double", "required": False}])
    with Env(sp, rig="L", clock="tick") as e:
        t = e.table(schema=S3)
        nan = float("nan")
        if big:
            layout = sp.choose(2, name="layout")
            if layout == 0:   # chunk 0: 0.0..0.9, chunk 1: NaN + values far above, chunk 2: 0.5
                xs = [(i % 10) / 10.0 for i in range(1000)] + [nan if i == 500 else 2000.0 + i for i in range(1000)] + [0.5] * 100
            else:             # everything 0.5 except one NaN in chunk 1
                xs = [0.5] * 1000 + [nan if i == 700 else 0.5 for i in range(1000)] + [0.5] * 100
            batches = [[{"a": i, "x": x} for i, x in enumerate(xs)], [{"a": 5000, "x": 1.0}]]
        else:
            batches = [[{"a": 1, "x": nan}, {"a": 2, "x": 0.5}], [{"a": 3, "x": 0.5}, {"a": 4, "x": 0.5}], [{"a": 5, "x": nan}], [{"a": 6, "x": 7.0}, {"a": 7, "x": nan}, {"a": 8, "x": 9.0}]]
        for b in batches:
            t.append_records(b)
        rows = [r for b in batches for r in b]
        ops = ["==", "!=", "<", "<=", ">", ">=", "in", "not_in", "is_null", "is_not_null"]
        op = ops[sp.choose(len(ops), name="op")]
        lit = ([0.5, 2500.0, 1.0] if big else [0.5, 7.0, 8.0])[sp.choose(3, name="literal")]
        val = [lit] if op in ("in", "not_in") else lit
        exp = sorted(r["a"] for r in rows if matches(op, r["x"], val))
        got = sorted(r["a"] for r in e.table().scan(filter={"x": filter_value(op, val)}))
        sp.note("filter", f"x {op} {val}")
        sp.reach("ran")
        sp.require(got == exp, f"after accepted appends mixing NaN and finite values, scan(x {op} {val}) returns {got}, the rows say {exp}",
                   {"sig": f"accepted-misfilter:nan-batch:{op}"})


def append_outcome(sp, reuse=False, records="ok"):
    with Env(sp, rig="L", clock="tick") as e:
        w = e.world
        t0 = e.table(schema=S)
        t0.append_records([{"a": 1000, "b": "one", "f": 1.0, "d": datetime.date(2020, 1, 1)}])
        t = t0 if reuse else e.table()
        vi = sp.choose(len(SCHEMA_VARIANTS), name="schema_variant")
        variant = SCHEMA_VARIANTS[vi]
        rec = dict(RECORDS[records])
        with w.inspect():
            files0 = e.files()
        name0, md0 = reader.current_metadata(files0, loads=e.symjson.loads)
        reach0 = reader.reachable(files0, md0)
        raised = None
        try:
            t.append_records([rec], schema=_variant_schema(variant))
        except Exception as ex:  # noqa
            raised = ex
        sp.note("variant", variant)
        sp.note("records", records)
        sp.note("outcome", type(raised).__name__ if raised else "accepted")
        sp.reach("ran")
        tag = f"{variant}:{records}:{'reused' if reuse else 'fresh'}"
        with w.inspect():
            files1 = e.files()
        name1, md1 = reader.current_metadata(files1, loads=e.symjson.loads)
        if raised is not None:
            same = [s["snapshot_id"] for s in md1["snapshots"]] == [s["snapshot_id"] for s in md0["snapshots"]] and md1["current_snapshot_id"] == md0["current_snapshot_id"]
            sp.require(same and reader.reachable(files1, md1) == reach0 and all(p in files1 and files1[p] == files0[p] for p in reach0),
                       f"{tag}: the append raised {type(raised).__name__} but left a trace (snapshot list / reachable files changed)", {"sig": f"rejected-left-trace:{variant}"})
            rows = sorted(r["a"] for r in e.table().scan())
            sp.require(rows == [1000], f"{tag}: the append raised but the table content is {rows}", {"sig": f"rejected-content-changed:{variant}"})
            # ... and no trace in the HANDLE: an ordinary append through it afterwards is stored correctly and scans keep working
            try:
                t.append_records([{"a": 7, "b": "seven", "f": 2.75, "d": None}])
                back = sorted((r["a"], r["b"], r["f"]) for r in e.table().scan())
            except Exception as ex:  # noqa
                sp.require(False, f"{tag}: after the REJECTED append, an ordinary append through the same handle / a scan fails: "
                           f"{type(ex).__name__}: {str(ex)[:100]}", {"sig": f"rejected-poisoned-handle:{variant}"})
                return
            sp.require(back == [(7, "seven", 2.75), (1000, "one", 1.0)], f"{tag}: after the rejected append, a later ordinary append reads back as {back}",
                       {"sig": f"rejected-poisoned-handle:{variant}"})
            return
        # accepted: later scans work and return every row exactly as supplied
        try:
            tr = e.table()
            got = [r for r in tr.scan() if r["a"] != 1000]
        except Exception as ex:  # noqa
            sp.require(False, f"{tag}: the append was ACCEPTED and now every scan fails: {type(ex).__name__}: {str(ex)[:120]}", {"sig": f"accepted-breaks-scans:{variant}"})
            return
        sp.require(len(got) == 1, f"{tag}: accepted append, scan returns {len(got)} new rows", {"sig": f"accepted-row-count:{variant}:{records}"})
        row = got[0]
        for fdef in S.fields:
            col, typ = fdef["name"], fdef["type"]
            sp.require(_same(rec.get(col), row.get(col), col, typ), f"{tag}: value of column '{col}' was silently altered: supplied {rec.get(col)!r}, "
                       f"stored {row.get(col)!r}", {"sig": f"value-altered:{records}:{col}"})
        # filtered scans on every column still find the row
        for fdef in S.fields:
            col = fdef["name"]
            v = row.get(col)
            flt = {col: ("is_null", True)} if v is None else {col: v}
            try:
                hit = [r for r in tr.scan(filter=flt) if r["a"] == row["a"]]
            except Exception as ex:  # noqa
                sp.require(False, f"{tag}: filtered scan on '{col}' fails after the accepted append: {type(ex).__name__}", {"sig": f"accepted-filter-fails:{variant}"})
                return
            sp.require(len(hit) == 1, f"{tag}: filtered scan {flt} does not return the appended row (mis-filter after an accepted append)",
                       {"sig": f"accepted-misfilter:{variant}:{col}"})


FILE_VARIANTS = ["identical", "reordered", "type_changed", "nullable_for_required", "required_for_nullable", "extra_column", "missing_column", "not_parquet"]


def append_file_outcome(sp):
    import io

    import pyarrow as pa
    import pyarrow.parquet as pq
    S2 = Schema(schema_id=1, fields=[{"id": 1, "name": "a", "type": "long", "required": True}, {"id": 2, "name": "b", "type": "string", "required": False}])
    with Env(sp, rig="L", clock="tick") as e:
        w = e.world
        t = e.table(schema=S2)
        t.append_records([{"a": 1, "b": "one"}])
        vi = sp.choose(len(FILE_VARIANTS), name="file_variant")
        variant = FILE_VARIANTS[vi]
        fa = pa.field("a", pa.int64(), nullable=False)
        fb = pa.field("b", pa.string(), nullable=True)
        rows = {"a": [7], "b": ["seven"]}
        if variant == "identical":
            sch = pa.schema([fa, fb])
        elif variant == "reordered":
            sch = pa.schema([fb, fa])
        elif variant == "type_changed":
            sch = pa.schema([pa.field("a", pa.int32(), nullable=False), fb])
        elif variant == "nullable_for_required":
            sch = pa.schema([pa.field("a", pa.int64(), nullable=True), fb])
        elif variant == "required_for_nullable":
            sch = pa.schema([fa, pa.field("b", pa.string(), nullable=False)])
        elif variant == "extra_column":
            sch = pa.schema([fa, fb, pa.field("z", pa.int64())])
            rows["z"] = [0]
        elif variant == "missing_column":
            sch = pa.schema([fa])
            rows.pop("b")
        else:
            sch = None
        if sch is not None:
            buf = io.BytesIO()
            pq.write_table(pa.table(rows, schema=sch), buf)
            raw = buf.getvalue()
        else:
            raw = b"this is not a parquet file"
        with w.inspect():
            t.storage.write_file("data/prebuilt.parquet", raw)
            files0 = e.files()
        name0, md0 = reader.current_metadata(files0, loads=e.symjson.loads)
        raised = None
        try:
            with t.new_transaction() as tx:
                tx.append_files([DataFile(file_path="/data/prebuilt.parquet", file_format=FileFormat.PARQUET, partition_values={}, record_count=1,
                                          file_size_in_bytes=len(raw))])
                tx.commit()
        except Exception as ex:  # noqa
            raised = ex
        sp.note("file_variant", variant)
        sp.note("outcome", type(raised).__name__ if raised else "accepted")
        sp.reach("ran")
        with w.inspect():
            files1 = e.files()
        name1, md1 = reader.current_metadata(files1, loads=e.symjson.loads)
        if raised is not None:
            sp.require([s["snapshot_id"] for s in md1["snapshots"]] == [s["snapshot_id"] for s in md0["snapshots"]],
                       f"append_files({variant}) raised but changed the snapshot list", {"sig": f"file-rejected-left-trace:{variant}"})
            sp.require(variant != "identical", "append_files rejected a file whose schema is identical to the table's", {"sig": "file-identical-rejected"})
            return
        try:
            rows_now = sorted(r["a"] for r in e.table().scan())
            fr = sorted(r["a"] for r in e.table().scan(filter={"b": "seven"}))
        except Exception as ex:  # noqa
            sp.require(False, f"append_files({variant}) was ACCEPTED and now scans fail: {type(ex).__name__}: {str(ex)[:100]}",
                       {"sig": f"file-accepted-breaks-scans:{variant}"})
            return
        sp.require(rows_now == [1, 7] and fr == [7], f"append_files({variant}) accepted; scan gives {rows_now}, filtered {fr}", {"sig": f"file-accepted-rows:{variant}"})


def obligations(tier):
    obs = []
    T = 300 if tier == "quick" else 900
    for fresh in (1, 0):
        for perm in (0, 1):
            for extra in (0, 1, 2):
                obs.append(Ob(f"a.schema_arg.{'fresh' if fresh else 'primed'}.perm{perm}.extra{extra}", "vf.props.c11:schema_arg",
                              {"FRESH": fresh, "PERM": perm, "EXTRA": extra}, engine="crosshair", timeout=T,
                              bounds=f"2-field table schema; argument: {'swapped' if perm else 'same'} order, {['same arity', 'an extra field', 'a missing field'][extra]}, "
                                     f"symbolic ids in 1..3, types of 3, required flags; {'fresh handle' if fresh else 'Arrow-schema cache primed with the table schema'}",
                              weight=6))
    obs.append(Ob("b.records_strict", "vf.props.c11:records_strict", {}, engine="crosshair", timeout=T,
                  bounds="one record of <= 2 keys from a 3-name alphabet, Optional[int] values", weight=4))
    for reuse in (False, True):
        for rk in RECORDS:
            if tier == "quick" and reuse and rk not in ("ok", "fraction_into_long", "unknown_key"):
                continue
            obs.append(Ob(f"c.append.{'reused' if reuse else 'fresh'}.{rk}", "vf.props.c11:append_outcome", {"reuse": reuse, "records": rk, "_must_reach": ["ran"]},
                          timeout=T, bounds=f"every schema-argument variant ({len(SCHEMA_VARIANTS)}) x record class '{rk}' x {'reused' if reuse else 'fresh'} handle",
                          weight=3))
    obs.append(Ob("c.nan_batch", "vf.props.c11:nan_batch", {"_must_reach": ["ran"]}, timeout=T,
                  bounds="accepted batches mixing NaN and finite doubles; 10 operators x 3 literals on filtered scans", weight=2))
    obs.append(Ob("c.nan_batch.big", "vf.props.c11:nan_batch", {"big": True, "_must_reach": ["ran"]}, timeout=T,
                  bounds="ONE accepted append of 2100 records (writer chunks of 1000) with a NaN in the middle chunk, 2 layouts; 10 operators x 3 literals", weight=3))
    obs.append(Ob("d.append_files", "vf.props.c11:append_file_outcome", {"_must_reach": ["ran"]}, timeout=T,
                  bounds=f"pre-built parquet file with each footer-schema deviation ({len(FILE_VARIANTS)})", weight=3))
    return obs
