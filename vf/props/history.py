"""History engine shared by C05(b), C09(a), C15(b): a solver-chosen sequence of <= L real operations on one table,
with a reference model of the snapshot history and pluggable per-step oracles.

Solver variables: operation kind at every step, operation targets (which file / snapshot / cut-off), grace period
and idle time before a collection, the snapshot-timestamp clock deltas (equal-millisecond timestamps allowed)."""
from vf.oracles import reader
from vf.props.common import SCH
from vf.symx import SInt, smax

ALL_OPS = ["append", "append2", "delete", "replace", "expire", "delsnap", "gc", "failed_commit", "set_retention", "open_txn", "contended_commit", "reappend", "reused_txn"]


class Snap:
    def __init__(self, sid, rows, files, manifests, mlist, ts, seq, parent):
        self.id = sid
        self.rows = rows
        self.files = files
        self.manifests = manifests
        self.mlist = mlist
        self.ts = ts
        self.seq = seq
        self.parent = parent  # the snapshot that was current when this one was committed (true parent)


class History:
    def __init__(self, sp, env, ops, checks=(), table=None):
        self.sp = sp
        self.e = env
        self.ops = list(ops)
        self.checks = list(checks)
        self.t = table or env.table(schema=SCH)
        self.all = {}  # id -> Snap (every snapshot ever committed)
        self.order = []  # ids in commit order
        self.retained = []  # ids currently retained, commit order
        self.current = None
        self.next_row = 1
        self.retention = None
        self.open = []  # open transactions: (tx, set(files they registered))
        self.trail = []
        self.last_seq = 0
        self.meta_versions = []  # metadata file names in commit order

    # ---- observation
    def files(self):
        with self.e.world.inspect():
            return self.e.files()

    def md(self):
        f = self.files()
        return f, reader.current_metadata(f, loads=self.e.symjson.loads)

    def observe_commit(self, kind):
        """After an acknowledged snapshot-creating commit: record the new snapshot from storage."""
        f, (name, md) = self.md()
        new = [s for s in md["snapshots"] if s["snapshot_id"] not in self.all]
        self.sp.require(len(new) == 1, f"{kind}: expected exactly one new snapshot, metadata has {len(new)} ({self.trail})", {"sig": f"hist:{kind}:new-snapshots"})
        s = new[0]
        pairs = reader.snapshot_files(f, s)
        rows = tuple(sorted(reader.snapshot_rows(f, s, "a")))
        snap = Snap(s["snapshot_id"], rows, frozenset(p for p, _ in pairs), frozenset(reader.snapshot_manifests(f, s)),
                    s["manifest_list"].lstrip("/"), s["timestamp_ms"], s.get("sequence_number"), self.current)
        self.all[snap.id] = snap
        self.order.append(snap.id)
        self.retained.append(snap.id)
        self.current = snap.id
        return snap

    def cur_rows(self):
        return set(self.all[self.current].rows) if self.current in self.all else set()

    def cur_files(self):
        """{row: data file path} of the current snapshot."""
        if self.current not in self.all:
            return {}
        f = self.files()
        out = {}
        for p in sorted(self.all[self.current].files):
            for r in reader.pq.read_table(reader.io.BytesIO(f[p])).to_pylist():
                out[r["a"]] = p
        return out

    def apply_retention_model(self):
        n = self.retention
        if n is None or n < 1 or len(self.retained) <= n:
            return
        # stable sort by timestamp (ties keep commit order), keep the last n, always keep current
        ids = list(self.retained)
        ids_sorted = sorted(ids, key=lambda i: _Key(self.all[i].ts))
        keep = set(ids_sorted[-n:])
        keep.add(self.current)
        self.retained = [i for i in self.retained if i in keep]

    # ---- one step
    def step(self, k):
        sp, t, e = self.sp, self.t, self.e
        kind = self.ops[sp.choose(len(self.ops), name=f"op{k}")]
        w = e.world
        if kind in ("delete", "replace", "reappend") and not self.cur_rows():
            kind = "append"
        if kind in ("expire", "delsnap") and not self.retained:
            kind = "append"
        self.trail.append(kind)
        before_files = None
        info = {"kind": kind}
        if kind in ("append", "append2"):
            rows = [self.next_row] if kind == "append" else [self.next_row, self.next_row + 1]
            self.next_row += len(rows)
            exp = self.cur_rows() | set(rows)
            if kind == "append":
                t.append_records([{"a": rows[0]}])
            else:
                with t.new_transaction() as tx:
                    for r in rows:
                        tx.append_data([{"a": r}])
                    tx.commit()
            s = self.observe_commit(kind)
            sp.require(set(s.rows) == exp, f"{kind}: new snapshot rows {s.rows} != expected {sorted(exp)} ({self.trail})", {"sig": f"hist:{kind}:rows"})
            self.apply_retention_model()
        elif kind == "reappend":
            # a data file that is already part of the table is registered AGAIN (a re-submitted batch): same path listed by two manifests
            dfs = sorted(t._get_all_data_files(), key=lambda d: d.file_path)
            df = dfs[sp.choose(len(dfs), name=f"again{k}")]
            exp = self.cur_rows()
            with t.new_transaction() as tx:
                tx.append_files([df])
                tx.commit()
            s = self.observe_commit(kind)
            sp.require(set(s.rows) == exp, f"{kind}: new snapshot rows {s.rows} != expected {sorted(exp)} ({self.trail})", {"sig": f"hist:{kind}:rows"})
            self.apply_retention_model()
        elif kind in ("delete", "replace"):
            cf = self.cur_files()
            rows_avail = sorted(cf)
            victim = rows_avail[sp.choose(len(rows_avail), name=f"victim{k}")]
            spelling = sp.choose(2, name=f"spell{k}")
            path = cf[victim]
            arg = "/" + path if spelling == 0 else path
            gone = {r for r, p in cf.items() if p == path}
            exp = self.cur_rows() - gone
            add = []
            if kind == "replace":
                add = [self.next_row]
                self.next_row += 1
                exp |= set(add)
            with t.new_transaction() as tx:
                for r in add:
                    tx.append_data([{"a": r}])
                tx.delete_files([arg])
                tx.commit()
            info["deleted_path"] = path
            prev = self.all[self.current]
            s = self.observe_commit(kind)
            sp.require(set(s.rows) == exp, f"{kind}: new snapshot rows {s.rows} != expected {sorted(exp)} ({self.trail})", {"sig": f"hist:{kind}:rows"})
            expf = (set(prev.files) - {path})
            sp.require(expf <= set(s.files) and path not in s.files and len(s.files) == len(expf) + len(add),
                       f"{kind}: file delete did not remove exactly the named file ({self.trail})", {"sig": f"hist:{kind}:files"})
            self.apply_retention_model()
        elif kind == "expire":
            i = sp.choose(len(self.retained), name=f"cut{k}")
            cutoff = self.all[self.retained[i]].ts
            off = sp.choose(2, name=f"cutoff_plus{k}")
            cutoff = cutoff + off
            with t.new_transaction() as tx:
                tx.expire_snapshots(cutoff)
                tx.commit()
            self.retained = [s for s in self.retained if s == self.current or not _lt(self.all[s].ts, cutoff)]
        elif kind == "delsnap":
            i = sp.choose(len(self.retained), name=f"del{k}")
            sid = self.retained[i]
            r = t.snapshot_manager.delete_snapshot(sid)
            sp.require(r is True, f"delete_snapshot of a retained snapshot returned {r!r}", {"sig": "hist:delsnap:false"})
            self.retained.remove(sid)
            if self.current == sid:
                self.current = self.retained[-1] if self.retained else None
            info["deleted_snapshot"] = sid
        elif kind == "gc":
            gi = sp.choose(3, name=f"grace{k}")
            grace = [0, 3600_000, 30 * 24 * 3600_000][gi]
            idle = sp.choose(2, name=f"idle{k}")
            w.clock.advance([5, 2 * 3600_000][idle])
            before_files = self.files()
            info["grace"] = grace
            info["now"] = w.clock.peek()
            with w.inspect():
                info["mtimes"] = self.mtimes()
            info["stats"] = t.garbage_collect(grace_period_ms=grace)
        elif kind == "failed_commit":
            # a commit that fails cleanly at the pointer write (local: exception before the rename)
            from vf.rigs.world import fault_at
            import errno as _errno
            from vf.rigs.fakes3 import cerr
            row = self.next_row
            self.next_row += 1
            st = fault_at(w, w.step + 1, lambda l, i: (OSError(_errno.EIO, "injected") if e.rig == "L" else cerr("AccessDenied", "PutObject", 403)),
                          when=lambda l, i: (i.get("path") or i.get("key") or "").endswith("version-hint.text") and l in ("replace", "put>"))
            # the fault is armed for the NEXT pointer write, wherever it is
            st_k = {"armed": True}

            def arm(w_, label, info_, a):
                p = info_.get("path") or info_.get("key") or ""
                if st_k["armed"] and p.endswith("version-hint.text") and label in ("replace", "put>"):
                    st_k["armed"] = False
                    raise (OSError(_errno.EIO, "injected") if e.rig == "L" else cerr("AccessDenied", "PutObject", 403))
            w.callbacks.clear()
            w.callbacks.append(arm)
            failed = False
            try:
                t.append_records([{"a": row}])
            except Exception:  # noqa
                failed = True
            w.callbacks.clear()
            sp.require(failed, "failed_commit: the injected pointer-write failure did not fail the commit", {"sig": "hist:failed_commit:not-failed"})
        elif kind == "set_retention":
            n = 1 + sp.choose(2, name=f"ret{k}")
            mm = t.metadata_manager
            base = mm.refresh()
            import copy
            new = copy.deepcopy(base)
            new.properties = dict(new.properties)
            new.properties["datashard.snapshot.retention-count"] = str(n)
            mm.commit(base, new)
            self.retention = n
        elif kind == "set_logmax":
            n = ["1", "2", "x"][sp.choose(3, name=f"logmax{k}")]
            mm = t.metadata_manager
            base = mm.refresh()
            import copy
            new = copy.deepcopy(base)
            new.properties = dict(new.properties)
            new.properties["write.metadata.previous-versions-max"] = n
            mm.commit(base, new)
        elif kind == "contended_commit":
            # a LIVE transaction whose data file is already older than the grace period commits, loses the race once to a rival
            # (injected between its base read and its validation) and retries; a collection with the default grace period runs
            # during its retry back-off.  Nothing the transaction registered may be collected.
            import sys as _sys
            to = e.table()
            tx = to.new_transaction()
            tx.begin()
            row = self.next_row
            self.next_row += 1
            tx.append_data([{"a": row}])
            w.clock.advance(2 * 3600_000)
            rival = e.table()
            rrow = self.next_row
            self.next_row += 1
            real_commit = to.metadata_manager.commit
            stc = {"n": 0}

            def commit_with_rival(base, new):
                stc["n"] += 1
                if stc["n"] == 1:
                    rival.append_records([{"a": rrow}])
                    with w.inspect():
                        self.observe_commit("contended-rival")
                        self.apply_retention_model()
                return real_commit(base, new)

            to.metadata_manager.commit = commit_with_rival
            tshim = _sys.modules["time"]
            real_sleep = tshim.sleep
            sts = {"done": False}

            def sleep_with_gc(x):
                if not sts["done"]:
                    sts["done"] = True
                    t.garbage_collect()  # default grace period (1 h)
                return real_sleep(x)

            tshim.sleep = sleep_with_gc
            try:
                tx.commit()
            except Exception as ex:  # noqa
                sp.require(False, f"contended_commit: the live transaction's commit failed after a collection ran during its retry back-off: "
                           f"{type(ex).__name__}: {str(ex)[:100]} ({self.trail})", {"sig": "gc:live-transaction-files-collected"})
            finally:
                tshim.sleep = real_sleep
                to.metadata_manager.commit = real_commit
            sp.require(sts["done"] and stc["n"] >= 2, "contended_commit: the scenario did not retry", {"sig": "hist:contended:no-retry"})
            try:
                snap = self.observe_commit("contended")
            except reader.Unreadable as ex:
                sp.require(False, f"contended_commit: a file of the committed snapshot was collected: {ex} ({self.trail})",
                           {"sig": "gc:live-transaction-files-collected"})
                return kind
            sp.require(row in snap.rows and rrow in snap.rows, f"contended_commit: rows {snap.rows} lack the two committed rows", {"sig": "hist:contended:rows"})
            self.apply_retention_model()
        elif kind == "reused_txn":
            # ONE Transaction object used twice: its first commit is interrupted right AFTER the pointer write took effect (the snapshot is
            # committed, the caller sees KeyboardInterrupt), its second commit fails cleanly AT the pointer write.  The second failure's
            # clean-up must not touch anything the first commit made reachable.
            import errno as _errno
            to = e.table()
            st_ = to.storage
            mode = {"m": "after"}
            real = {n: getattr(st_, n) for n in ("write_file", "write_file_cas") if hasattr(st_, n)}

            def wrap(name):
                def f(path, *a, **kw):
                    if str(path).endswith("version-hint.text") and mode["m"] == "after":
                        mode["m"] = "off"
                        real[name](path, *a, **kw)
                        raise KeyboardInterrupt()
                    if str(path).endswith("version-hint.text") and mode["m"] == "before":
                        mode["m"] = "off"
                        raise OSError(_errno.ENOSPC, "injected: no space left on device")
                    return real[name](path, *a, **kw)
                return f
            for n in real:
                setattr(st_, n, wrap(n))
            tx = to.new_transaction()
            r1, r2 = self.next_row, self.next_row + 1
            self.next_row += 2
            exp = self.cur_rows() | {r1}
            try:
                tx.begin()
                tx.append_data([{"a": r1}])
                tx.commit()
            except KeyboardInterrupt:
                pass
            s1 = self.observe_commit(kind)
            sp.require(set(s1.rows) == exp, f"{kind}: rows {s1.rows} != expected {sorted(exp)} ({self.trail})", {"sig": f"hist:{kind}:rows"})
            self.apply_retention_model()
            mode["m"] = "before"
            failed = False
            try:
                tx.begin()
                tx.append_data([{"a": r2}])
                tx.commit()
            except Exception:  # noqa
                failed = True
                try:
                    tx.rollback()
                except Exception:  # noqa
                    pass
            for n in real:
                setattr(st_, n, real[n])
            sp.require(failed, f"{kind}: the injected pointer-write failure did not fail the second commit", {"sig": f"hist:{kind}:not-failed"})
        elif kind == "open_txn":
            to = e.table()
            tx = to.new_transaction()
            tx.begin()
            row = 1000 + len(self.open)
            before = set(self.files())
            tx.append_data([{"a": row}])
            reg = {p for p in set(self.files()) - before if p.startswith("data/")}
            self.open.append((tx, reg))
        info["before_files"] = before_files
        for c in self.checks:
            c(self, k, info)
        return kind

    def mtimes(self):
        e = self.e
        out = {}
        if e.rig == "L":
            root = e.fos._resolve(e.root)[0]
            for p in self.e.files():
                ino = e.fos._lookup(root + "/" + p)
                out[p] = ino.mtime
        elif e.rig == "S":
            pre = e.s3_prefix.rstrip("/") + "/" if e.s3_prefix else ""
            for k, v in e.s3.o.items():
                if k.startswith(pre):
                    out[k[len(pre):]] = v[2].ms
        else:
            for p in e.mem.files:
                m = e.mem.mtime.get(p)
                out[p] = m.ms if hasattr(m, "ms") else 0
        return out

    def run(self, L):
        for k in range(L):
            self.step(k)


class _Key:
    """sort key over possibly symbolic ints (comparisons fork through the engine, consistently with the code's own)."""

    def __init__(self, v):
        self.v = v

    def __lt__(self, o):
        return bool(self.v < o.v)


def _lt(a, b):
    return bool(a < b)


# ------------------------------------------------------------------------------------------------ oracles
def check_state(h, k, info):
    """Common: the observed metadata agrees with the model on retained set, current snapshot, current rows."""
    sp = h.sp
    f, (name, md) = h.md()
    ids = [s["snapshot_id"] for s in md["snapshots"]]
    sp.require(sorted(ids, key=str) == sorted(h.retained, key=str),
               f"after {h.trail}: retained snapshots {[h.order.index(i) + 1 if i in h.order else '?' for i in ids]} but the reference model "
               f"retains {[h.order.index(i) + 1 for i in h.retained]}", {"sig": f"hist:retained:{h.trail[-1]}"})
    cur = md.get("current_snapshot_id")
    exp = h.current if h.current is not None else None
    sp.require(cur == exp or (exp is None and cur in (None, -1)),
               f"after {h.trail}: current snapshot is #{h.order.index(cur) + 1 if cur in h.order else cur} but the model says "
               f"#{h.order.index(exp) + 1 if exp in h.order else exp}", {"sig": f"hist:current:{h.trail[-1]}"})
    if h.meta_versions[-1:] != [name]:
        h.meta_versions.append(name)


def check_gc(h, k, info):
    """C05: a collection deletes nothing reachable from any retained snapshot and nothing registered by an open
    transaction; every retained snapshot stays readable with identical content; old orphans are in fact removed."""
    if info["kind"] != "gc":
        return
    sp = h.sp
    before = info["before_files"]
    after = h.files()
    deleted = set(before) - set(after)
    reach = set()
    for sid in h.retained:
        s = h.all[sid]
        reach |= set(s.files) | set(s.manifests) | {s.mlist}
    live = set()
    for tx, reg in h.open:
        live |= reg
    bad = sorted(deleted & reach)
    sp.require(not bad, f"collection after {h.trail} (grace {info['grace']}) deleted files referenced by retained snapshots: {bad}",
               {"sig": "gc:deleted-reachable"})
    badl = sorted(deleted & live)
    sp.require(not badl, f"collection after {h.trail} deleted files registered by an open transaction: {badl}", {"sig": "gc:deleted-inflight"})
    for sid in h.retained:
        s = h.all[sid]
        try:
            f_name, md = reader.current_metadata(after, loads=h.e.symjson.loads)
            sd = [x for x in md["snapshots"] if x["snapshot_id"] == sid][0]
            rows = tuple(sorted(reader.snapshot_rows(after, sd, "a")))
        except (reader.Unreadable, IndexError) as ex:
            sp.require(False, f"after a collection ({h.trail}) retained snapshot #{h.order.index(sid) + 1} is unreadable: {ex}", {"sig": "gc:snapshot-unreadable"})
            return
        sp.require(rows == s.rows, f"after a collection retained snapshot #{h.order.index(sid) + 1} reads {rows}, was {s.rows}", {"sig": "gc:snapshot-changed"})
    # non-vacuity: unreferenced data / manifest files older than the grace period are gone
    now = info["now"]
    for p in sorted(after):
        if not (p.startswith("data/") or p.startswith("metadata/manifests/")):
            continue
        if p in reach or p in live or p.rsplit("/", 1)[-1].startswith((".tmp", "tmp")):
            continue
        m = info["mtimes"].get(p)
        if m is None:
            continue
        old = (now - m) > info["grace"] + 10
        if isinstance(old, bool):
            sp.require(not old, f"collection after {h.trail} (grace {info['grace']}) left the unreferenced old file {p}", {"sig": "gc:orphan-survives"})
        else:
            sp.require(~old if hasattr(old, "t") else not old, f"collection left the unreferenced old file {p}", {"sig": "gc:orphan-survives"})


def check_immutable(h, k, info):
    """C09: every retained snapshot re-read after every step has the content recorded at its commit; lookup by id
    returns it unchanged; lookup by timestamp returns the most recently committed retained snapshot not newer than
    the requested time."""
    sp = h.sp
    f, (name, md) = h.md()
    for sid in h.retained:
        s = h.all[sid]
        sd = [x for x in md["snapshots"] if x["snapshot_id"] == sid]
        if not sd:
            continue  # reported by check_state
        try:
            rows = tuple(sorted(reader.snapshot_rows(f, sd[0], "a")))
            files = frozenset(p for p, _ in reader.snapshot_files(f, sd[0]))
        except reader.Unreadable as ex:
            sp.require(False, f"after {h.trail}: retained snapshot #{h.order.index(sid) + 1} is no longer readable: {ex}", {"sig": f"immut:unreadable:{h.trail[-1]}"})
            return
        sp.require(rows == s.rows and files == s.files, f"after {h.trail}: retained snapshot #{h.order.index(sid) + 1} changed: rows {rows} (was {s.rows})",
                   {"sig": f"immut:changed:{h.trail[-1]}"})
        got = h.t.snapshot_by_id(sid)
        sp.require(got is not None and got.manifest_list.lstrip("/") == s.mlist and _eq(got.timestamp_ms, s.ts),
                   f"after {h.trail}: lookup by id of snapshot #{h.order.index(sid) + 1} changed", {"sig": "immut:by-id"})
    # time travel by timestamp
    for sid in h.retained:
        q = h.all[sid].ts
        got = h.t.snapshot_manager.get_snapshot_by_timestamp(q)
        exp = None
        for r in h.retained:  # commit order: the LAST retained snapshot with ts <= q
            if not _lt(q, h.all[r].ts):
                exp = r
        sp.require(got is not None and got.snapshot_id == exp,
                   f"after {h.trail}: lookup by the timestamp of snapshot #{h.order.index(sid) + 1} returned "
                   f"#{h.order.index(got.snapshot_id) + 1 if got is not None and got.snapshot_id in h.order else None}, the most recently committed "
                   f"retained snapshot not newer than it is #{h.order.index(exp) + 1 if exp in h.order else None}", {"sig": "immut:by-timestamp"})
    if h.retained:
        first = h.all[h.retained[0]].ts
        early = min_ts(h) - 1
        got = h.t.snapshot_manager.get_snapshot_by_timestamp(early)
        sp.require(got is None, f"after {h.trail}: lookup before the first retained snapshot returned a snapshot", {"sig": "immut:by-timestamp-early"})


def min_ts(h):
    m = None
    for r in h.retained:
        t = h.all[r].ts
        m = t if m is None else (t if _lt(t, m) else m)
    return m


def _eq(a, b):
    r = (a == b)
    return bool(r)


def check_invariant(h, k, info):
    """C15: metadata well-formedness after every step."""
    sp = h.sp
    f, (name, md) = h.md()
    tr = h.trail
    snaps = md["snapshots"]
    ids = [s["snapshot_id"] for s in snaps]
    cur = md.get("current_snapshot_id")
    sp.require((cur in ids) or (not ids and cur in (None, -1)), f"after {tr}: current snapshot not among retained", {"sig": "inv:current-not-retained"})
    # parents: retained true ancestor (nearest surviving w.r.t. the true history) or nothing
    for s in snaps:
        p = s.get("parent_snapshot_id")
        true_chain = []
        x = h.all[s["snapshot_id"]].parent if s["snapshot_id"] in h.all else None
        seen = set()
        while x is not None and x in h.all and x not in seen:
            seen.add(x)
            true_chain.append(x)
            x = h.all[x].parent
        surv = [a for a in true_chain if a in ids]
        if p in (None, -1):
            sp.require(not surv, f"after {tr}: snapshot #{h.order.index(s['snapshot_id']) + 1} lost its parent link although ancestor "
                       f"#{h.order.index(surv[0]) + 1 if surv else '-'} is retained", {"sig": "inv:parent-dropped"})
        else:
            sp.require(p in ids, f"after {tr}: snapshot #{h.order.index(s['snapshot_id']) + 1} has a dangling parent", {"sig": "inv:parent-dangling"})
            sp.require(bool(surv) and surv[0] == p, f"after {tr}: parent of snapshot #{h.order.index(s['snapshot_id']) + 1} is not its nearest surviving "
                       f"true ancestor", {"sig": "inv:parent-not-nearest-ancestor"})
    # sequence numbers strictly increase in commit order and never exceed last_sequence_number, which never decreases
    in_commit_order = [i for i in h.order if i in ids]
    seqs = [next(s for s in snaps if s["snapshot_id"] == i).get("sequence_number") for i in in_commit_order]
    sp.require(all(a is not None for a in seqs) and all(a < b for a, b in zip(seqs, seqs[1:])),
               f"after {tr}: sequence numbers not strictly increasing in commit order: {seqs}", {"sig": "inv:seq-order"})
    last = md["last_sequence_number"]
    sp.require(all(a <= last for a in seqs) and last >= h.last_seq, f"after {tr}: last_sequence_number {last} (was {h.last_seq}), snapshot seqs {seqs}",
               {"sig": "inv:last-seq"})
    h.last_seq = last
    # snapshot log: only retained snapshots, in commit order
    log = [e_["snapshot_id"] for e_ in md["snapshot_log"]]
    sp.require(all(i in ids for i in log) and log == [i for i in h.order if i in log],
               f"after {tr}: snapshot log lists non-retained snapshots or is out of commit order", {"sig": "inv:snapshot-log"})
    # metadata log: bounded, names existing superseded versions
    mlog = md.get("metadata_log") or []
    raw = (md.get("properties") or {}).get("write.metadata.previous-versions-max")
    try:
        bound = int(raw) if raw is not None else 100
    except (TypeError, ValueError):
        bound = 100
    if bound >= 1:
        sp.require(len(mlog) <= bound, f"after {tr}: metadata log has {len(mlog)} entries, bound {bound}", {"sig": "inv:metadata-log-bound"})
    for ent in mlog:
        mf = ent.get("metadata-file", "")
        sp.require(mf.lstrip("/") in f and mf.lstrip("/") != "metadata/" + name, f"after {tr}: metadata log names {mf}, which does not exist or is the current version",
                   {"sig": "inv:metadata-log-entry"})
    # manifest entries keep the original adding snapshot / sequence number of carried files
    for s in snaps:
        for p, ent in reader.snapshot_files(f, s):
            first = next((h.all[i] for i in h.order if p in h.all[i].files), None)
            if first is None:
                continue
            sp.require(ent.get("snapshot_id") == first.id and ent.get("sequence_number") == first.seq,
                       f"after {tr}: file {p} in snapshot #{h.order.index(s['snapshot_id']) + 1} is stamped with snapshot/sequence "
                       f"({ent.get('snapshot_id') == first.id}, {ent.get('sequence_number')} vs {first.seq}) instead of its original adder",
                       {"sig": "inv:entry-restamped"})
