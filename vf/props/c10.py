"""C10 - the version pointer is only a hint.

(a) E1 (CrossHair) on the real MetadataManager._parse_hint_content: total, and a returned
    (version, name) is faithful to the text.
(b) E2 (symx) on recovery over Rig L: see c10b_* harnesses (pointer classes x metadata-file directories
    x histories with failed / conflicting commits).
"""
from typing import Optional, Tuple

from datashard.metadata_manager import MetadataManager

from vf.runner import Ob

LEVEL = "other"
TECHNIQUE = ('CrossHair (z3) on the real pointer parser over symbolic bytes + symx over (leftover-producing event x pointer damage class x follow-up) through the real recovery code')
EXPLANATION = (
    "Bounded symbolic execution of the real pointer parser (CrossHair/z3: every byte string up to the stated "
    "length; verdict 'Confirmed over all paths') and of the real recovery / initialisation code over an "
    "in-memory POSIX model (symx/z3: pointer class, on-disk metadata-file population, fault position and clock "
    "are solver variables; decision tree exhausted). Counterexamples are replayed natively before being reported.")
RULE = ("E1: one case = one z3 query issued by CrossHair while exploring the harness; E2: one case = one explored "
        "path of the decision tree; non-trivial = path on which z3 decided at least one symbolic branch or assertion")
ASSUMPTIONS = [
    "pointer contents longer than the stated byte bound are outside the verdict (real pointer names are 25 bytes)",
    "FakeOS models the POSIX calls used by LocalStorageBackend (see vf/rigs/fakeos.py); uuid4 values are pairwise distinct",
    "orphan metadata files produced by a crash (not by a failed/conflicting commit) are C03's subject",
]
TRUSTED = ["CrossHair 0.0.110 str/bytes models", "z3 5.1", "vf.rigs.fakeos POSIX model"]

MAXLEN = 3
DIGITS = "0123456789"


def _faithful(content: bytes, r: Optional[Tuple[int, str]]) -> bool:
    """Independent reading of what a parse result must look like."""
    if r is None:
        return True
    ver, name = r
    if not isinstance(ver, int) or isinstance(ver, bool) or ver < 0:
        return False
    if not (name.startswith("v") and name.endswith(".metadata.json")):
        return False
    core = name[1:-len(".metadata.json")]
    if "-" in core:
        digits, _, suffix = core.partition("-")
        if len(suffix) != 8 or any(c not in "0123456789abcdef" for c in suffix):
            return False
    else:
        digits = core
    if not digits or any(c not in DIGITS for c in digits):
        return False
    # version equals the decimal value of the digits
    v = 0
    for c in digits:
        v = v * 10 + DIGITS.index(c)
    if v != ver:
        return False
    # the name (or its digits, legacy form) literally occurs in the pointer text
    try:
        text = content.decode("utf-8")
    except UnicodeDecodeError:
        return False
    return name in text or digits in text


def hint_bytes(content: bytes) -> bool:
    """
    pre: len(content) <= MAXLEN
    post: _
    """
    try:
        r = MetadataManager._parse_hint_content(content)
    except Exception:
        return False  # the parser must be total: an exception here makes every open of the table fail
    return _faithful(content, r)


def hint_bytes__samples():
    return [(b"",), (b"7",), (b" 12\n",), (b"v3.metadata.json",), (b"v3-1a2b3c4d.metadata.json\n",), (b"\xff\xfe",),
            (b"garbage",), (b"v3-1A2B3C4D.metadata.json",), (b"v-1.metadata.json",)]


def hint_bytes__signature(content):
    try:
        MetadataManager._parse_hint_content(content)
    except Exception as e:
        try:
            t = content.decode("utf-8").strip()
            kind = "non-ascii-digit" if (t.isdigit() and not t.isascii()) else "other"
        except Exception:
            kind = "other"
        return f"parse-raises:{type(e).__name__}:{kind}"
    return "unfaithful-result"


def hint_text(text: str) -> bool:
    """
    pre: len(text) <= MAXLEN
    post: _
    """
    # the decoder is bypassed: a symbolic str goes straight into the parser's text logic
    class _B:
        def decode(self, enc):
            return text
    try:
        r = MetadataManager._parse_hint_content(_B())  # type: ignore[arg-type]
    except Exception:
        return False
    if r is None:
        return True
    return isinstance(r[0], int) and r[0] >= 0


def hint_text__signature(text):
    try:
        t = text.strip()
        kind = "non-ascii-digit" if (t.isdigit() and not t.isascii()) else "other"
    except Exception:
        kind = "other"
    return f"parse-raises:ValueError:{kind}"


CANON = "v12-0a1b2c3d.metadata.json"
POS = 0


def hint_mutant(b: int) -> bool:
    """
    pre: 0 <= b <= 255
    post: _
    """
    # canonical pointer with ONE symbolic byte substituted at position POS (set per obligation)
    raw = CANON.encode()
    content = raw[:POS] + bytes([b]) + raw[POS + 1:]
    try:
        r = MetadataManager._parse_hint_content(content)
    except Exception:
        return False
    return _faithful(content, r)


def hint_mutant__samples():
    return [(ord(CANON[POS]),), (0,), (0xC2,), (ord("9"),), (ord(" "),)]


def obligations(tier):
    obs = [
        Ob("a.parse_bytes_len3", "vf.props.c10:hint_bytes", {"MAXLEN": 3}, engine="crosshair", timeout=240,
           bounds="every byte string of length <= 3", weight=9),
        Ob("a.parse_text_len6_search", "vf.props.c10:hint_text", {"MAXLEN": 6}, engine="crosshair", timeout=40,
           bounds="symbolic str of length <= 6, decoder stubbed; bug-hunting only (regex on symbolic str is never confirmed)",
           allow_inconclusive=True, weight=2),
    ]
    positions = [1, 2, 3, 4, 11, 12, 25] if tier == "quick" else list(range(len(CANON)))
    for p in positions:
        obs.append(Ob(f"a.canonical_mutant_pos{p:02d}", "vf.props.c10:hint_mutant", {"POS": p}, engine="crosshair",
                      timeout=120, bounds=f"canonical pointer name with byte {p} replaced by any byte value", weight=3))
    if tier == "thorough":
        obs.append(Ob("a.parse_bytes_len4", "vf.props.c10:hint_bytes", {"MAXLEN": 4}, engine="crosshair", timeout=1500,
                      bounds="every byte string of length <= 4", allow_inconclusive=True, weight=10))
    try:
        from vf.props import c10b
        obs += c10b.obligations(tier)
    except ImportError:
        pass
    return obs
