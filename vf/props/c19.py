"""C19 - locks exclude, time out, and never report a lock that is not held.

Local: E2 (symx) + baton threads, 2-3 contenders each with its own real LocalLockProvider / FileLock (= its own open file description, so
threads-with-own-handle and processes look the same to FakeOS) at syscall granularity (open / flock / close / unlink /
stat); a holder may die (the kernel closes its descriptors).
S3 CAS lock: E2 + baton threads on FakeS3, 2-3 contenders running the real acquire / _try_acquire /
_try_takeover_expired / is_held / release (+ _renew_once as an actor), request granularity incl. in-flight PUT / DELETE,
symbolic pause durations (0..130 s) so the 60 s lease can lapse.  Ghost state kept by the harness: per contender the
SERVER-SIDE LastModified of its last successful conditional write of the lock object (lease start) and 'inside the
critical section'.
Polling provider (documented best-effort): only is_held / renew refusal, E1 single steps."""
import threading

import datashard.lock_provider as lpmod
from datashard.file_lock import FileLock
from datashard.lock_provider import LocalLockProvider, S3LockProvider, S3PollingLockProvider

from vf.props.common import is_lock
from vf.rigs.env import Env
from vf.rigs.world import Killed
from vf.runner import Ob
from vf.sched import Sched
from vf.symx import sand, snot, sor

LEVEL = "other"
TECHNIQUE = ('symx: symbolic schedules and pause durations over the real FileLock (FakeOS flock model) and the real S3 CAS lock (FakeS3) with lease ghost state + CrossHair single steps on the polling provider')
EXPLANATION = (
    "Bounded symbolic execution (symx/z3) of the real lock code under a baton scheduler: all interleavings of 2-3 "
    "contenders within the pre-emption bound, symbolic pause durations and clock; mutual exclusion (w.r.t. valid "
    "leases measured from server-side LastModified), takeover-only-after-expiry, loss detection and timeout "
    "assertions discharged per path; CrossHair single-step obligations on the polling provider.")
RULE = "one case = one explored schedule x feasible class of pause/clock values; non-trivial = z3 decided a scheduling choice or a lease comparison"
ASSUMPTIONS = [
    "Linux flock semantics as modelled by FakeOS (lock belongs to the open file description, released on last close / process death); "
    "fork = children working on copies of the parent's lock object with the parent's descriptor numbers",
    "FakeS3: strongly consistent, conditional PUT; clients share one clock; the store's clock equals it except in the skew obligation "
    "(store ahead by a symbolic 0..5 s; a store BEHIND the clients makes any client-side lease check early by the skew and is outside the claim)",
    "a paused client whose lease lapsed and whose lock was legitimately taken over is NOT a violation as long as is_held() reports the loss",
    "pre-emption bound K; the real kernel, real processes, NFS and the polling provider's exclusion are outside the claim",
]
TRUSTED = ["z3 5.1", "vf.symx", "vf.rigs.fakeos flock model", "vf.rigs.fakes3", "CrossHair 0.0.110"]

LOCK = "/wh/tbl/.locks/metadata.lock"


def lock_points(label, info):
    p = info.get("path") or info.get("key") or ""
    return is_lock(info) or label in ("flock", "sleep", "cs") or p.endswith(".locks")


def local_lock(sp, n=2, K=3, scenario="mutex", timeout=0.05):
    with Env(sp, rig="L", clock="tick") as e:
        w = e.world
        e.fos.mkdir_durable("/wh/tbl/.locks")
        inside = set()
        overlap = []
        if scenario == "forked":
            # one long-lived instance (like MetadataManager.lock_provider's) is used once, THEN the process forks: every child inherits a
            # copy of the object and of the parent's descriptor table (same descriptor numbers = same open file descriptions)
            import copy
            base = LocalLockProvider(LOCK, 5.0)
            assert base.acquire() is True
            base.release()
            locks = [copy.deepcopy(base) for _ in range(n)]
        else:
            # the table's commit lock on a local table: LocalLockProvider (a FileLock underneath)
            locks = [LocalLockProvider(LOCK, timeout if scenario not in ("mutex",) else 5.0) for _ in range(n)]
        t_start = {}
        t_end = {}
        sc = Sched(sp, K=K, world=w)
        w.yield_filter = lock_points
        stuck = {"release": False}

        def contender(i):
            def fn():
                lk = locks[i]
                t_start[i] = w.clock.peek()
                try:
                    ok = lk.acquire()
                except TimeoutError:
                    t_end[i] = w.clock.peek()
                    return "timeout"
                if ok is not True:
                    return f"returned {ok!r}"
                inside.add(i)
                if len(inside) > 1:
                    overlap.append(tuple(sorted(inside)))
                if scenario == "die" and i == 0:
                    w.point("cs")
                    w.kill(0)
                    e.fos.kill_process(0)
                    inside.discard(0)
                    raise Killed()
                if scenario == "stuck" and i == 0:
                    # holder never releases while the other contender waits
                    sc.yield_point(0, "cs", until=lambda: stuck["release"])
                else:
                    w.point("cs")
                held = lk.is_held()
                inside.discard(i)
                lk.release()
                return "ok" if held else "is_held-false-while-holding"
            return fn

        def waiter_done():
            stuck["release"] = True

        if scenario == "stuck":
            # the holder (a live process that never releases) took the lock before the contender starts
            assert locks[0].acquire() is True
            sc.spawn(1, contender(1))
        else:
            for i in range(n):
                sc.spawn(i, contender(i))
        w.sched = sc
        try:
            sc.run()
        finally:
            w.sched = None
        for tid, err in sc.errors.items():
            if not isinstance(err, Killed):
                raise AssertionError(f"actor {tid} crashed in harness: {err!r}")
        trace = sc.trace_str()
        sp.note("schedule", trace)
        sp.note("results", dict(sc.results))
        sp.reach("ran")
        tag = f"local:{scenario}:n{n}"
        sp.require(not overlap, f"{tag}: critical sections overlapped: holders {overlap[:1]} (schedule {trace})", {"sig": f"{tag}:overlap"})
        for i, r in sc.results.items():
            if scenario in ("mutex", "forked"):
                sp.require(r == "ok", f"{tag}: contender {i} ended with {r} (schedule {trace})", {"sig": f"{tag}:{r}"})
        if scenario == "die":
            for i in range(1, n):
                sp.require(sc.results.get(i) == "ok", f"{tag}: the holder died but contender {i} ended with {sc.results.get(i)} (schedule {trace})",
                           {"sig": f"{tag}:death-does-not-release"})
        if scenario == "stuck":
            locks[0].release()
            r = sc.results.get(1)
            sp.require(r == "timeout", f"{tag}: a blocked acquirer ended with {r} while the holder was live (schedule {trace})", {"sig": f"{tag}:no-timeout"})
            if r == "timeout":
                el = t_end[1] - t_start[1]
                ms = int(timeout * 1000)
                sp.require(sand(el >= ms, el <= ms + 10 + 25), f"{tag}: TimeoutError after {el} ms, configured timeout {ms} ms (poll interval 10 ms)",
                           {"sig": f"{tag}:timeout-duration"})


def s3_lock(sp, n=2, K=2, pause_max_ms=130000, heartbeat=False, timeout=1.0, skew_max_ms=0):
    with Env(sp, rig="S", clock="tick") as e:
        w = e.world
        if skew_max_ms:
            # the store's clock runs AHEAD of the clients' by a symbolic amount (LastModified is server time, the contender's "now" is its
            # own): a fresh lock then looks slightly NEGATIVE in age to a contender - it must still not be taken over early
            e.s3.skew_ms = sp.fresh_int("server_clock_ahead_ms", 0, skew_max_ms)
        key = "tbl/.locks/metadata.lock"
        provs = [S3LockProvider(e.s3, e.bucket, key, timeout=timeout) for _ in range(n)]
        lease_ms = provs[0].lease_seconds * 1000
        e.lock_ids = {i: p.lock_id.encode() for i, p in enumerate(provs)}
        inside = {}
        sc = Sched(sp, K=K, world=w, pause_max_ms=pause_max_ms)
        w.yield_filter = lock_points
        problems = []

        def lease_start(i):
            """server-side LastModified (ms) of contender i's last successful write of the lock object"""
            ms = None
            for (st, k, a, before, after) in e.s3.put_log:
                if k == key and a in (i, f"hb{i}"):
                    ms = e.s3_mod_at.get(st)
            return ms

        # record LastModified at each applied put
        e.s3_mod_at = {}
        real_put = e.s3.put_object

        def put(**kw):
            r = real_put(**kw)
            return r
        def contender(i):
            def fn():
                p = provs[i]
                try:
                    ok = p.acquire()
                except TimeoutError:
                    return "timeout"
                if ok is not True:
                    return f"returned {ok!r}"
                now = w.clock.peek() + e.s3.skew_ms   # server time, like LastModified
                # nobody else may be inside its critical section with a still-valid lease
                for j, sj in list(inside.items()):
                    if j == i:
                        continue
                    lm = _last_write_ms(e, key, j)
                    valid_j = (now - lm) <= lease_ms
                    valid_i = (now - _last_write_ms(e, key, i)) <= lease_ms
                    # (a contender whose OWN lease already lapsed while its response was in flight is a paused client, not a
                    #  second holder: its is_held() must report the loss - asserted below)
                    sp.require(snot(sand(valid_i, valid_j)), f"s3lock n{n}: contenders {i} and {j} are both inside their critical sections with "
                               f"valid leases (schedule {sc.trace_str()})", {"sig": f"s3lock:two-valid-holders:{_how(e, key, i)}"})
                inside[i] = True
                probes = sp.choose(2, name=f"probes_is_held{i}")  # a holder may or may not re-check ownership before releasing
                w.point("cs")
                now2 = w.clock.peek() + e.s3.skew_ms
                for j in list(inside):
                    if j != i:
                        vi = (now2 - _last_write_ms(e, key, i)) <= lease_ms
                        vj = (now2 - _last_write_ms(e, key, j)) <= lease_ms
                        sp.require(snot(sand(vi, vj)), f"s3lock n{n}: contenders {i} and {j} are both inside their critical sections with valid "
                                   f"leases (schedule {sc.trace_str()})", {"sig": f"s3lock:two-valid-holders-in-cs:{_how(e, key, i)}"})
                held = p.is_held() if probes else None
                content = e.s3.o.get(key, (None,))[0]
                if held:
                    lw = None
                    for (st_, k_, a_, b_, af_) in e.s3.put_log:
                        if k_ == key:
                            lw = a_
                    sp.require(content == p.lock_id.encode() and lw in (i, "hb"), f"s3lock: is_held() of contender {i} is True but the lock object was "
                               f"last written by contender {lw} (schedule {sc.trace_str()})", {"sig": "s3lock:is_held-true-not-owner"})
                inside.pop(i, None)
                p.release()
                return "ok" if held or held is None else "lost"
            return fn

        for i in range(n):
            sc.spawn(i, contender(i))
        if heartbeat:
            def hb():
                import time as _t
                for _ in range(2):
                    for i, p in enumerate(provs):
                        if p.is_locked:
                            p._renew_once()
                    _t.sleep(20.0)
            sc.spawn("hb", hb)
        # takeover monitor: every applied conditional overwrite of a lock held by someone else must happen after lease expiry
        w.sched = sc
        try:
            sc.run()
        finally:
            w.sched = None
        for tid, err in sc.errors.items():
            raise AssertionError(f"actor {tid} crashed in harness: {err!r}")
        trace = sc.trace_str()
        sp.note("schedule", trace)
        sp.note("results", {str(k): v for k, v in sc.results.items()})
        sp.reach("ran")
        # takeover only after the lease lapsed: for consecutive applied writes by different owners without a delete in between
        hist = e.s3.history.get(key, [])
        mods = _mods(e, key)
        for a, b in zip(mods, mods[1:]):
            (st1, body1, ms1), (st2, body2, ms2) = a, b
            if body1 is not None and body2 is not None and body1 != body2:
                sp.require((ms2 - ms1) > lease_ms, f"s3lock: the lock was taken over {ms2 - ms1} ms after its last renewal (lease {lease_ms} ms) (schedule {trace})",
                           {"sig": "s3lock:takeover-before-expiry"})
        for i in range(n):
            r = sc.results.get(i)
            sp.require(r in ("ok", "lost", "timeout"), f"s3lock: contender {i} ended with {r}", {"sig": f"s3lock:{r}"})


def _mods(e, key):
    """[(step, body|None, LastModified ms)] of every applied change of the lock object."""
    out = []
    for st, body in e.s3.history.get(key, []):
        out.append((st, body, e.s3.times.get((key, st))))
    return out


def _last_write_ms(e, key, j):
    """server-side LastModified (ms) of the last applied write of the lock object made BY contender j (its create / takeover)
    or by the heartbeat on its behalf (renewal carrying j's id) = start of j's current lease"""
    ms = None
    mine = e.lock_ids[j]
    bodies = dict(e.s3.history.get(key, []))
    for (st, k, a, before, after) in e.s3.put_log:
        if k != key:
            continue
        if a == j or (a == "hb" and bodies.get(st) == mine):
            ms = e.s3.times.get((key, st))
    return ms


def _how(e, key, i):
    """classify HOW the lock object became free for contender i.  The known defect (KF-C19-1): a release() that READ ITS OWN ID,
    was then paused past its lease, and whose DELETE removed the lock object of the contender that had taken over meanwhile.
    A release that deletes a foreign lock WITHOUT having just read its own id is a different (worse) defect."""
    ids = getattr(e, "lock_ids", {})
    reqs = [r for r in e.s3.req_log if r[2] == key]
    for n, (st, lbl, k, a) in enumerate(reqs):
        if lbl != "del>":
            continue
        before = e.s3.content_at(key, st - 1)
        if before is None or a not in ids or before == ids[a]:
            continue
        prev = [r for r in reqs[:n] if r[3] == a]
        if prev and prev[-1][1] == "get>" and e.s3.content_at(key, prev[-1][0] - 1) == ids[a]:
            return "release-deleted-foreign-lock"
        return "release-deleted-foreign-lock-without-ownership-check"
    return "other"


# ---- polling provider single steps (E1) ---------------------------------------------------------------------------
class _Clk:
    now = 0.0

    @classmethod
    def monotonic(cls):
        return cls.now

    @classmethod
    def sleep(cls, x):
        cls.now += x

    @classmethod
    def time(cls):
        return cls.now


class _OneObj:
    def __init__(self, body):
        self.body = body
        self.puts = 0

    def get_object(self, Bucket, Key):
        class B:
            def __init__(s, b):
                s.b = b

            def read(s):
                return s.b
        if self.body is None:
            from botocore.exceptions import ClientError
            raise ClientError({"Error": {"Code": "NoSuchKey"}}, "GetObject")
        return {"Body": B(self.body)}

    def put_object(self, Bucket, Key, Body, **kw):
        self.puts += 1
        self.body = Body
        return {"ETag": '"1"'}


def polling_is_held(now_ms: int, deadline_ms: int, mine: bool, locked: bool) -> bool:
    """
    pre: 0 <= now_ms <= 200 and 0 <= deadline_ms <= 200
    post: _
    """
    old = lpmod.time
    lpmod.time = _Clk
    try:
        _Clk.now = now_ms  # whole seconds (ints keep the solver away from float division)
        p = S3PollingLockProvider.__new__(S3PollingLockProvider)
        p.lock_id = "me"
        p.is_locked = locked
        p._lease_deadline = deadline_ms
        p.bucket = "b"
        p.key = "k"
        p.s3 = _OneObj(b"me" if mine else b"other")
        got = p.is_held()
        # never claims a lock past its own lease deadline, nor one whose object carries another id, nor an unlocked one
        if got and (now_ms > deadline_ms or not mine or not locked):
            return False
        return got == (locked and mine and now_ms <= deadline_ms)
    finally:
        lpmod.time = old


def polling_is_held__samples():
    return [(1, 60, True, True), (61, 60, True, True), (1, 60, False, True), (0, 0, True, False)]


def polling_renew(now_ms: int, deadline_ms: int, mine: bool) -> bool:
    """
    pre: 0 <= now_ms <= 200 and 0 <= deadline_ms <= 200
    post: _
    """
    old = lpmod.time
    lpmod.time = _Clk
    try:
        _Clk.now = now_ms  # whole seconds (ints keep the solver away from float division)
        p = S3PollingLockProvider.__new__(S3PollingLockProvider)
        p.lock_id = "me"
        p.is_locked = True
        p.lease_seconds = 60
        p._lease_deadline = deadline_ms
        p.bucket = "b"
        p.key = "k"
        s3 = _OneObj(b"me" if mine else b"other")
        p.s3 = s3
        p._renew_once()
        if now_ms > deadline_ms or not mine:
            # a lapsed lease / foreign lock is never resurrected by a late renewal; the loss is recorded
            return s3.puts == 0 and p.is_locked is False
        return s3.puts == 1 and p.is_locked is True
    finally:
        lpmod.time = old


def polling_renew__samples():
    return [(1, 60, True), (61, 60, True), (1, 60, False)]


def obligations(tier):
    obs = []
    T = 300 if tier == "quick" else 1800
    obs.append(Ob("local.mutex.n2.K3", "vf.props.c19:local_lock", {"n": 2, "K": 3, "scenario": "mutex", "_must_reach": ["ran"]}, timeout=T,
                  bounds="2 contenders, own FileLock each, K=3, points at every syscall on the lock file", weight=5))
    obs.append(Ob("local.mutex.n3.K2", "vf.props.c19:local_lock", {"n": 3, "K": 2, "scenario": "mutex", "_must_reach": ["ran"]}, timeout=T,
                  bounds="3 contenders, K=2", weight=9))
    if tier == "thorough":
        obs.append(Ob("local.mutex.n3.K3", "vf.props.c19:local_lock", {"n": 3, "K": 3, "scenario": "mutex"}, timeout=T,
                      bounds="3 contenders, K=3", weight=9, allow_inconclusive=True))
    obs.append(Ob("local.forked.n2.K2", "vf.props.c19:local_lock", {"n": 2, "K": 2, "scenario": "forked", "_must_reach": ["ran"]}, timeout=T,
                  bounds="one FileLock instance used once, then forked: 2 children contend through copies of it (inherited descriptor numbers), K=2", weight=4))
    obs.append(Ob("local.die.n2.K2", "vf.props.c19:local_lock", {"n": 2, "K": 2, "scenario": "die", "timeout": 0.05}, timeout=T,
                  bounds="holder dies inside its critical section; the other contender must get the lock", weight=4))
    obs.append(Ob("local.stuck.n2.K2", "vf.props.c19:local_lock", {"n": 2, "K": 2, "scenario": "stuck", "timeout": 0.05}, timeout=T,
                  bounds="holder never releases; blocked acquirer (timeout 50 ms, poll 10 ms) must raise TimeoutError within timeout + poll", weight=4))
    obs.append(Ob("s3.n2.K2", "vf.props.c19:s3_lock", {"n": 2, "K": 2, "_must_reach": ["ran"]}, timeout=T,
                  bounds="2 contenders, real S3LockProvider, K=2, symbolic pauses 0..130 s, acquire timeout 1 s", weight=6))
    obs.append(Ob("s3.n2.skew.K2", "vf.props.c19:s3_lock", {"n": 2, "K": 2, "skew_max_ms": 5000, "_must_reach": ["ran"]}, timeout=T,
                  bounds="2 contenders, store clock ahead of the clients' by a symbolic 0..5 s (LastModified is server time), symbolic pauses", weight=6))
    obs.append(Ob(f"s3.n3.K{2 if tier == 'quick' else 3}", "vf.props.c19:s3_lock", {"n": 3, "K": 2 if tier == "quick" else 3, "_must_reach": ["ran"]}, timeout=T * 2,
                  bounds="3 contenders, real S3LockProvider, K=2 (quick) / 3 (thorough), symbolic pauses", weight=9))
    obs.append(Ob(f"s3.n2.hb.K{2 if tier == 'quick' else 3}", "vf.props.c19:s3_lock", {"n": 2, "K": 2 if tier == "quick" else 3, "heartbeat": True}, timeout=T,
                  bounds="2 contenders + heartbeat actor (2 renewal rounds), K=2 (quick) / 3 (thorough)", weight=9, allow_inconclusive=(tier == "thorough")))
    obs.append(Ob("polling.is_held", "vf.props.c19:polling_is_held", {}, engine="crosshair", timeout=120,
                  bounds="polling provider: symbolic monotonic time / lease deadline (0..200 s, whole seconds), owner id match, local flag", weight=2))
    obs.append(Ob("polling.renew", "vf.props.c19:polling_renew", {}, engine="crosshair", timeout=120,
                  bounds="polling provider: one renewal with symbolic time / deadline / owner", weight=2))
    return obs
