"""Single-writer operation scenarios shared by C03 (crash), C04 (faults), C16 (power loss): build a table with n prior
snapshots, run ONE operation as process 'w', observe the table with the independent reader."""
from vf.oracles import reader
from vf.props.common import SCH

OPS = ["create", "append", "append2", "delete", "replace", "expire", "append_expire", "delsnap_cur", "delsnap_old", "gc"]


class Summary:
    def __init__(self, files, loads):
        self.files = files
        self.name, self.md = reader.current_metadata(files, loads=loads)
        if self.md is None:
            self.uuid = None
            self.snaps = []
            self.current = None
            self.rows = None
        else:
            self.uuid = self.md["table_uuid"]
            self.snaps = [s["snapshot_id"] for s in self.md["snapshots"]]
            self.current = self.md.get("current_snapshot_id")
            self.rows = reader.current_rows(files, "a", loads=loads)

    def rows_of(self, sid):
        s = [x for x in self.md["snapshots"] if x["snapshot_id"] == sid][0]
        return sorted(reader.snapshot_rows(self.files, s, "a"))

    def key(self):
        return (self.uuid, tuple(self.snaps), self.current, tuple(self.rows) if self.rows is not None else None)


def summarize(env):
    with env.world.inspect():
        files = env.files()
    return Summary(files, env.symjson.loads)


def file_of_row(summary, row):
    for s in summary.md["snapshots"]:
        for p, ent in reader.snapshot_files(summary.files, s):
            rows = reader.pq.read_table(reader.io.BytesIO(summary.files[p])).to_pylist()
            if any(r["a"] == row for r in rows):
                return "/" + p
    raise KeyError(row)


def setup(env, op, n_prior):
    """Returns (table|None, pre Summary, ctx)."""
    ctx = {}
    if op == "create":
        return None, summarize(env), ctx
    t = env.table(schema=SCH)
    for i in range(1, n_prior + 1):
        t.append_records([{"a": i}])
    pre = summarize(env)
    if op in ("delete", "replace"):
        ctx["victim"] = file_of_row(pre, 1)
    if op == "gc":
        # an orphan data file and an orphan manifest, old enough to be collected
        st = t.storage
        st.write_file("data/orphan_old.parquet", b"orphan")
        st.write_file("metadata/manifests/orphan_old.avro", b"orphan")
        env.world.clock.advance(10_000)
        ctx["orphans"] = ["data/orphan_old.parquet", "metadata/manifests/orphan_old.avro"]
        pre = summarize(env)
    return t, pre, ctx


def run_op(env, t, op, ctx):
    """Run the operation (as the current actor). Returns the API's return value."""
    if op == "create":
        return env.table(schema=SCH)
    if op == "append":
        return t.append_records([{"a": 100}])
    if op == "append2":
        with t.new_transaction() as tx:
            tx.append_data([{"a": 100}])
            tx.append_data([{"a": 101}])
            return tx.commit()
    if op == "delete":
        with t.new_transaction() as tx:
            tx.delete_files([ctx["victim"]])
            return tx.commit()
    if op == "replace":
        with t.new_transaction() as tx:
            tx.append_data([{"a": 100}])
            tx.delete_files([ctx["victim"]])
            return tx.commit()
    if op == "expire":
        md = t.metadata_manager.refresh()
        cutoff = md.snapshots[1].timestamp_ms if len(md.snapshots) > 1 else md.snapshots[0].timestamp_ms
        with t.new_transaction() as tx:
            tx.expire_snapshots(cutoff)
            return tx.commit()
    if op == "append_expire":
        # one transaction that appends AND expires: both must become visible with one pointer flip
        md = t.metadata_manager.refresh()
        cutoff = md.snapshots[1].timestamp_ms
        with t.new_transaction() as tx:
            tx.append_data([{"a": 100}])
            tx.expire_snapshots(cutoff)
            return tx.commit()
    if op == "delsnap_cur":
        return t.snapshot_manager.delete_snapshot(t.metadata_manager.refresh().current_snapshot_id)
    if op == "delsnap_old":
        return t.snapshot_manager.delete_snapshot(t.metadata_manager.refresh().snapshots[0].snapshot_id)
    if op == "gc":
        return t.garbage_collect(grace_period_ms=0)
    raise ValueError(op)


def min_prior(op):
    return {"create": 0, "append": 0, "append2": 0, "delete": 1, "replace": 1, "expire": 2, "append_expire": 2, "delsnap_cur": 1, "delsnap_old": 2,
            "gc": 1}[op]


def is_post(pre, obs, op):
    """Is the observed Summary the post-state of `op` applied to `pre`?"""
    if obs.md is None:
        return False
    if op == "create":
        return obs.uuid is not None and obs.snaps == [] and obs.rows == []
    if obs.uuid != pre.uuid:
        return False
    if op in ("append", "append2"):
        add = [100] if op == "append" else [100, 101]
        return obs.snaps[:-1] == pre.snaps and len(obs.snaps) == len(pre.snaps) + 1 and obs.current == obs.snaps[-1] \
            and obs.rows == sorted((pre.rows or []) + add)
    if op == "delete":
        return obs.snaps[:-1] == pre.snaps and len(obs.snaps) == len(pre.snaps) + 1 and obs.current == obs.snaps[-1] \
            and obs.rows == sorted(r for r in pre.rows if r != 1)
    if op == "replace":
        return obs.snaps[:-1] == pre.snaps and len(obs.snaps) == len(pre.snaps) + 1 and obs.current == obs.snaps[-1] \
            and obs.rows == sorted([r for r in pre.rows if r != 1] + [100])
    if op == "expire":
        return obs.snaps == pre.snaps[1:] and obs.current == pre.current and obs.rows == pre.rows
    if op == "append_expire":
        return obs.snaps[:-1] == pre.snaps[1:] and len(obs.snaps) == len(pre.snaps) and obs.current == obs.snaps[-1] \
            and obs.rows == sorted((pre.rows or []) + [100])
    if op == "delsnap_cur":
        if obs.snaps != pre.snaps[:-1]:
            return False
        if not obs.snaps:
            return obs.current in (None, -1) and obs.rows == []
        return obs.current == pre.snaps[-2] and obs.rows == pre.rows_of(pre.snaps[-2])
    if op == "delsnap_old":
        return obs.snaps == pre.snaps[1:] and obs.current == pre.current and obs.rows == pre.rows
    if op == "gc":
        return obs.key() == pre.key()
    raise ValueError(op)


def is_pre(pre, obs):
    if pre.md is None:
        return obs.md is None
    return obs.md is not None and obs.key() == pre.key()


def all_snapshots_readable(summary):
    """Every retained snapshot's files are present and parse (independent reader). Returns error string or None."""
    if summary.md is None:
        return None
    try:
        for s in summary.md["snapshots"]:
            reader.snapshot_rows(summary.files, s, "a")
    except reader.Unreadable as ex:
        return str(ex)
    return None
