"""C12 - filters mean what SQL says, identically in every scan API.

E1 (CrossHair): the real parse_filter_dict / _parse_op / _build_condition / to_pyarrow_compute_expression run with
datashard.filters.pc / pa rebound to a mini-expression shim whose objects can be evaluated on a SYMBOLIC row; the result
is compared with a SQL three-valued reference evaluator for every operator and value type (NULL, NaN, +-inf, -0.0,
strings, booleans, IN lists with NULLs, BETWEEN, conjunctions), malformed filters must raise.
E2 (symx): API agreement - the real Table._scan_table / _read_datafile_table (verify-on and push-down branches) /
scan_batches / _iter_file_batches / iter_records run over mini tables with symbolic cell values; every API and option
(parallel, batch size, projection that omits the filtered column, checksum verification on/off) must return the
multiset the reference evaluator gives.
The shim is compared with real pyarrow.compute on a boundary grid on every run, and a concrete grid goes end to end
through the real Table API with real pyarrow."""
import sys
from typing import Optional

import datashard.filters as flt
from datashard.filters import parse_filter_dict, to_pyarrow_compute_expression

from vf.oracles.sql3v import filter_value, matches
from vf.rigs.exprshim import MiniArrow, MiniTable, PaShim, PcShim, keeps, validate_against_pyarrow
from vf.runner import Ob

LEVEL = "other"
TECHNIQUE = ('CrossHair (z3) on the real filter parser and condition builder over an expression shim evaluated on symbolic rows + symx on the real scan plumbing over tables with symbolic cells; shim validated against pyarrow each run')
EXPLANATION = (
    "CrossHair/z3 on the real filter parser and condition builder over an expression shim evaluated on symbolic rows "
    "(every operator x value type, 'Confirmed over all paths'); symx/z3 on the real scan plumbing of every read API "
    "over mini tables with symbolic cells; shim validated against pyarrow.compute each run; concrete end-to-end grid.")
RULE = "E1: one z3 query; E2: one explored path (class of cell/literal values x option choice); non-trivial = solver decided a comparison / chose an option"
ASSUMPTIONS = [
    "pyarrow's own equivalence between push-down (read_table(filters=)), row-group statistics and in-memory Table.filter is outside the claim",
    "NaN inside an IN / NOT IN literal list is excluded (SQL does not pin it down; Arrow's is_in treats NaN = NaN)",
    "literal type equals the column type; to_pandas / iter_pandas are not examined (pandas is not installed)",
    "strings up to 2 characters, IN lists up to 2 values, conjunctions of 2 conditions, 2 files x 2 rows in the API-agreement part",
]
TRUSTED = ["CrossHair 0.0.110", "z3 5.1", "vf.symx", "vf.rigs.exprshim (validated each run)"]

OP = "=="
OP2 = "<"


class _Shimmed:
    def __enter__(self):
        self.old = (flt.pc, flt.pa)
        flt.pc, flt.pa = PcShim, PaShim

    def __exit__(self, *a):
        flt.pc, flt.pa = self.old


def _agree(x, v) -> bool:
    with _Shimmed():
        exprs = parse_filter_dict({"c": filter_value(OP, v)})
        ce = to_pyarrow_compute_expression(exprs)
    return keeps(ce, {"c": x}) == matches(OP, x, v)


def sem_int(x: Optional[int], v: int) -> bool:
    """
    post: _
    """
    return _agree(x, v)


def sem_float(x: Optional[float], v: float) -> bool:
    """
    post: _
    """
    return _agree(x, v)


def sem_str(x: Optional[str], v: str) -> bool:
    """
    pre: (x is None or len(x) <= 2) and len(v) <= 2
    post: _
    """
    return _agree(x, v)


def sem_bool(x: Optional[bool], v: bool) -> bool:
    """
    post: _
    """
    return _agree(x, v)


def sem_int_list(x: Optional[int], a: Optional[int], b: Optional[int], n: int) -> bool:
    """
    pre: 0 <= n <= 2
    post: _
    """
    return _agree(x, [a, b][:n])


def sem_float_list(x: Optional[float], a: Optional[float], b: Optional[float], n: int) -> bool:
    """
    pre: 0 <= n <= 2 and (a is None or a == a) and (b is None or b == b)
    post: _
    """
    return _agree(x, [a, b][:n])


def sem_str_list(x: Optional[str], a: Optional[str], b: Optional[str], n: int) -> bool:
    """
    pre: 0 <= n <= 2 and all(s is None or len(s) <= 2 for s in (x, a, b))
    post: _
    """
    return _agree(x, [a, b][:n])


def sem_int_between(x: Optional[int], lo: int, hi: int) -> bool:
    """
    post: _
    """
    return _agree(x, (lo, hi))


def sem_float_between(x: Optional[float], lo: float, hi: float) -> bool:
    """
    post: _
    """
    return _agree(x, (lo, hi))


def sem_conj(x: Optional[int], y: Optional[float], v: int, w: float) -> bool:
    """
    post: _
    """
    with _Shimmed():
        exprs = parse_filter_dict({"c": filter_value(OP, v), "d": filter_value(OP2, w)})
        ce = to_pyarrow_compute_expression(exprs)
    return keeps(ce, {"c": x, "d": y}) == (matches(OP, x, v) and matches(OP2, y, w))


def sem_bare_equality(x: Optional[int], v: int) -> bool:
    """
    post: _
    """
    # {"c": value} means c == value
    with _Shimmed():
        ce = to_pyarrow_compute_expression(parse_filter_dict({"c": v}))
    return keeps(ce, {"c": x}) == matches("==", x, v)


KNOWN = {"==", "=", "eq", "!=", "<>", "ne", "<", "lt", "<=", "le", ">", "gt", ">=", "ge", "in", "not_in", "not in", "notin", "between",
         "is_null", "isnull", "is_not_null", "notnull", "isnotnull"}


def unknown_op_raises(op: str, v: int) -> bool:
    """
    pre: len(op) <= 3
    post: _
    """
    if op.lower() in KNOWN:
        return True
    try:
        parse_filter_dict({"c": (op, v)})
    except ValueError:
        return True
    except Exception:
        return False
    return False  # an unknown operator was silently reinterpreted


def unknown_op_raises__samples():
    return [("gte", 1), ("", 1), ("=>", 1), ("IN", 1), ("Eq", 1), ("~", 1)]


def _samples_scalar(vals, lits):
    return [(x, v) for x in vals for v in lits]


def sem_int__samples():
    return _samples_scalar([None, -1, 0, 1, 2 ** 53 + 1], [0, 1, 2 ** 53 + 1])


def sem_float__samples():
    nan, inf = float("nan"), float("inf")
    return _samples_scalar([None, nan, -inf, -0.0, 0.5, inf], [0.0, 0.5, nan, inf])


def sem_str__samples():
    return _samples_scalar([None, "", "a", "é"], ["", "a", "b"])


def aliases_and_malformed():
    """native: every alias in the operator table means the canonical operator; {'c': None} raises; non-tuple-of-2 forms."""
    n = 0
    bad = []
    canon = {"=": "==", "eq": "==", "<>": "!=", "ne": "!=", "lt": "<", "le": "<=", "gt": ">", "ge": ">=", "not in": "not_in", "notin": "not_in",
             "isnull": "is_null", "notnull": "is_not_null", "isnotnull": "is_not_null", "EQ": "==", "In": "in", "BETWEEN": "between"}
    grid = [None, -1, 0, 1, 5]
    with _Shimmed():
        for alias, c in canon.items():
            for x in grid:
                for v in (0, 1):
                    val = [v, 5] if c in ("in", "not_in") else ((v, 5) if c == "between" else v)
                    try:
                        ce = to_pyarrow_compute_expression(parse_filter_dict({"c": (alias, val if c not in ("is_null", "is_not_null") else True)}))
                        got = keeps(ce, {"c": x})
                    except Exception as ex:  # noqa
                        bad.append(f"{alias}: {type(ex).__name__}")
                        continue
                    n += 1
                    if got != matches(c, x, val):
                        bad.append(f"alias {alias!r} on {x!r},{val!r}: {got}")
        for f in ({"c": None},):
            n += 1
            try:
                parse_filter_dict(f)
                bad.append(f"{f} accepted")
            except ValueError:
                pass
        for opx in ("like", "startswith", "gte", "=>", "!", "is", "not", "=in"):
            n += 1
            try:
                parse_filter_dict({"c": (opx, 1)})
                bad.append(f"unknown operator {opx!r} accepted")
            except ValueError:
                pass
    nshim = validate_against_pyarrow()
    if bad:
        cex = {"harness": "native.aliases_malformed", "fn": "vf.props.c12:aliases_and_malformed", "kwargs": {}, "engine": "native",
               "message": f"filter aliases / malformed filters: {bad[:5]}", "signature": "aliases:" + bad[0][:40], "replayed": True}
        return {"status": "violation", "cex": cex, "cexs": [cex], "paths": n, "nontrivial": n, "detail": cex["message"]}
    return {"status": "holds", "paths": n + nshim, "nontrivial": n + nshim, "queries": 0, "solver_s": 0.0, "exhaustive": True, "crosschecks": nshim,
            "samples": [{"alias": "<>", "means": "!="}], "detail": f"{n} alias/malformed cases, {nshim} shim-vs-pyarrow cases"}


# ---------------------------------------------------------------------------------------------- E2: API agreement
def api_agreement(sp, op="==", with_second=False):
    import pyarrow as real_pa
    from vf.props.common import SCH  # noqa
    from datashard.data_structures import Schema
    from vf.rigs.env import Env

    schema = Schema(schema_id=1, fields=[{"id": 1, "name": "k", "type": "long", "required": True},
                                         {"id": 2, "name": "c", "type": "long", "required": False}])
    with Env(sp, rig="M", clock="tick") as e:
        t = e.table(schema=schema)
        # concrete files (c is all NULL on disk, so no bounds exist and nothing is pruned); the cells read back are symbolic
        t.append_records([{"k": 0, "c": None}, {"k": 1, "c": None}])
        t.append_records([{"k": 2, "c": None}, {"k": 3, "c": None}])
        arrow = MiniArrow()
        cells = []
        datas = sorted(p for p in e.mem.files if p.startswith("data/"))
        k = 0
        for p in datas:
            rows = []
            for _ in range(2):
                isnull = sp.choose(2, name=f"null{k}")
                val = None if isnull else sp.fresh_int(f"c{k}", -3, 3)
                rows.append({"k": k, "c": val})
                cells.append(val)
                k += 1
            arrow.register(e.mem.files[p], MiniTable(rows, ["k", "c"]))
        v = sp.fresh_int("lit", -3, 3)
        if op in ("in", "not_in"):
            v2 = sp.fresh_int("lit2", -3, 3)
            val = [v, None, v2][:1 + sp.choose(3, name="nlist")]
        elif op == "between":
            val = (v, sp.fresh_int("hi", -3, 3))
        else:
            val = v
        filt = {"c": filter_value(op, val)}
        exp = [i for i, x in enumerate(cells) if _m(op, x, val)]
        if with_second:
            filt["k"] = (">=", 1)
            exp = [i for i in exp if i >= 1]
        cols = [None, ["k"], ["k", "c"]][sp.choose(3, name="projection")]
        bs = 1 + sp.choose(3, name="batch_size")
        pa_shim, pq_shim = arrow.modules(real_pa)
        saved = (sys.modules["pyarrow"], sys.modules["pyarrow.parquet"], flt.pc, flt.pa)
        sys.modules["pyarrow"], sys.modules["pyarrow.parquet"] = pa_shim, pq_shim
        flt.pc, flt.pa = PcShim, PaShim
        results = {}
        try:
            tr = e.table()
            results["scan"] = sorted(r["k"] for r in tr.scan(columns=cols, filter=filt))
            results["scan_noverify"] = sorted(r["k"] for r in tr.scan(columns=cols, filter=filt, verify_checksums=False))
            results["scan_parallel"] = sorted(r["k"] for r in tr.scan(columns=cols, filter=filt, parallel=2))
            results["scan_batches"] = sorted(r["k"] for b in tr.scan_batches(batch_size=bs, columns=cols, filter=filt) for r in b)
            results["scan_batches_noverify"] = sorted(r["k"] for b in tr.scan_batches(batch_size=bs, columns=cols, filter=filt, verify_checksums=False) for r in b)
            results["iter_records"] = sorted(r["k"] for r in tr.iter_records(columns=cols, filter=filt))
        finally:
            sys.modules["pyarrow"], sys.modules["pyarrow.parquet"], flt.pc, flt.pa = saved
        sp.note("filter", str({kk: (vv[0] if isinstance(vv, tuple) else "==") for kk, vv in filt.items()}))
        sp.note("projection", cols)
        sp.reach("ran")
        for api, got in results.items():
            sp.require(got == exp, f"{api} with filter c {op} (projection {cols}, batch size {bs}) returned rows {got}, the SQL reference gives {exp}",
                       {"sig": f"api:{api}:{op}"})


def _m(op, x, val):
    """reference on possibly symbolic ints: forks consistently with the engine"""
    if op == "is_null":
        return x is None
    if op == "is_not_null":
        return x is not None
    if x is None:
        return False
    if op == "in":
        return any(e_ is not None and bool(x == e_) for e_ in val)
    if op == "not_in":
        return all(e_ is None or bool(x != e_) for e_ in val)
    if op == "between":
        return bool(x >= val[0]) and bool(x <= val[1])
    return bool({"==": lambda: x == val, "!=": lambda: x != val, "<": lambda: x < val, "<=": lambda: x <= val, ">": lambda: x > val,
                 ">=": lambda: x >= val}[op]())


def e2e_grid(big=False):
    """native: concrete boundary grid end to end through the real Table API with real pyarrow: every API == reference.
    big: two single appends of 2100 records each (the writer works in chunks of 1000), a NaN in the middle chunk."""
    import shutil
    import tempfile

    import datashard
    from datashard.data_structures import Schema
    nan = float("nan")
    import datetime as _dt
    import struct as _struct
    F32_01 = _struct.unpack("f", _struct.pack("f", 0.1))[0]
    schema = Schema(schema_id=1, fields=[{"id": 1, "name": "k", "type": "long", "required": True},
                                         {"id": 2, "name": "c", "type": "double", "required": False},
                                         {"id": 3, "name": "s", "type": "string", "required": False},
                                         {"id": 4, "name": "i", "type": "long", "required": False},
                                         {"id": 5, "name": "b", "type": "boolean", "required": False},
                                         {"id": 6, "name": "d", "type": "date", "required": False},
                                         {"id": 7, "name": "t", "type": "timestamp", "required": False},
                                         {"id": 8, "name": "f", "type": "float", "required": False}])
    root = tempfile.mkdtemp(prefix="vf_c12_")
    n = 0
    try:
        t = datashard.create_table(root + "/t", schema=schema)
        L = "u" * 40
        D, TS = _dt.date, _dt.datetime
        rows = [
            {"k": 0, "c": None, "s": None, "i": None, "b": None, "d": None, "t": None, "f": None},
            {"k": 1, "c": nan, "s": "", "i": -1, "b": True, "d": D(1969, 12, 31), "t": TS(2024, 1, 1, 12, 0, 0, 1750), "f": nan},
            {"k": 2, "c": 0.5, "s": "a", "i": 0, "b": False, "d": D(2024, 1, 1), "t": TS(2024, 1, 1, 12, 0, 0, 1000), "f": 0.5},
            {"k": 3, "c": -0.0, "s": "é", "i": 2 ** 53 + 1, "b": True, "d": D(2024, 12, 31), "t": TS(2024, 1, 1, 12, 0, 0, 999999), "f": 16777216.0},
            {"k": 4, "c": float("inf"), "s": "b", "i": 2 ** 53, "b": None, "d": D(2024, 1, 1), "t": None, "f": float("-inf")},
            {"k": 5, "c": 0.5, "s": "a", "i": 0, "b": False, "d": None, "t": TS(1970, 1, 1), "f": 1.5},
            {"k": 6, "c": 1.0, "s": L + "a", "i": 7, "b": True, "d": D(2000, 2, 29), "t": TS(2024, 1, 1, 12, 0, 0, 1751), "f": 0.25},
            {"k": 7, "c": 2.0, "s": L + "z", "i": 7, "b": True, "d": D(2000, 2, 29), "t": TS(2024, 1, 1, 12, 0, 0, 1749), "f": 0.75},
            # 0.1 is not representable in 32 bits: the column stores float32(0.1) = 0.100000001490116..., which is NOT equal to the double 0.1
            {"k": 8, "c": 0.1, "s": "zz", "i": 9, "b": None, "d": None, "t": None, "f": F32_01},
        ]
        if big:
            blank = {"s": None, "i": None, "b": None, "d": None, "t": None, "f": None}
            xs1 = [0.5] * 1000 + [nan if i == 700 else 0.5 for i in range(1000)] + [0.5] * 100
            xs2 = [(i % 10) / 10.0 for i in range(1000)] + [nan if i == 500 else 2000.0 + i for i in range(1000)] + [0.25] * 100
            rows = [dict(blank, k=i, c=x) for i, x in enumerate(xs1)]
            t.append_records(rows)
            rows2 = [dict(blank, k=10000 + i, c=x) for i, x in enumerate(xs2)]
            t.append_records(rows2)
            rows = rows + rows2
        else:
            t.append_records(rows[:3])
            t.append_records(rows[3:6])
            t.append_records(rows[6:])
        conds = []
        lits_by_col = (("c", [0.5, 2500.0, 0.25]),) if big else (("c", [0.5, 0.0, float("inf")]), ("s", ["a", "", "é", L + "z", L + "m"]), ("i", [0, 7, 2 ** 53, 2 ** 53 + 1]),
                       ("d", [D(2024, 1, 1), D(2000, 2, 29), D(1969, 12, 31)]),
                       ("t", [TS(2024, 1, 1, 12, 0, 0, 1750), TS(2024, 1, 1, 12, 0, 0, 1000), TS(1970, 1, 1)]), ("f", [0.5, 0.25, 16777216.0, 0.1, F32_01]))
        for col, lits in lits_by_col:
            for v in lits:
                for op in ("==", "!=", "<", "<=", ">", ">="):
                    conds.append((col, op, v))
                conds += [(col, "in", [v]), (col, "in", [v, None]), (col, "not_in", [v]), (col, "not_in", [v, None]), (col, "between", (v, lits[0]))]
            conds += [(col, "in", []), (col, "not_in", []), (col, "is_null", True), (col, "is_not_null", True)]
        if not big:
            for v in (True, False):
                conds += [("b", "==", v), ("b", "!=", v), ("b", "in", [v]), ("b", "not_in", [v, None])]
            conds += [("b", "is_null", True), ("b", "is_not_null", True)]
        for col, op, v in conds:
            exp = sorted(r["k"] for r in rows if matches(op, r[col], v))
            f = {col: filter_value(op, v)}
            for cols in ((["k"],) if big else (None, ["k"])):
                got = {
                    "scan": sorted(r["k"] for r in t.scan(columns=cols, filter=f)),
                    "scan_noverify": sorted(r["k"] for r in t.scan(columns=cols, filter=f, verify_checksums=False)),
                    "scan_parallel": sorted(r["k"] for r in t.scan(columns=cols, filter=f, parallel=2)),
                    "scan_batches1": sorted(r["k"] for b in t.scan_batches(batch_size=700 if big else 1, columns=cols, filter=f) for r in b),
                    "scan_batches_nv": sorted(r["k"] for b in t.scan_batches(batch_size=999 if big else 2, columns=cols, filter=f, verify_checksums=False) for r in b),
                    "iter_records": sorted(r["k"] for r in t.iter_records(columns=cols, filter=f)),
                }
                for api, g in got.items():
                    n += 1
                    if g != exp:
                        cex = {"harness": "native.e2e_grid", "fn": "vf.props.c12:e2e_grid", "kwargs": {"big": big}, "engine": "native",
                               "message": f"{api}(columns={cols}, filter {col} {op} {v!r}) returned keys {g[:6]}.. ({len(g)}), SQL reference {exp[:6]}.. ({len(exp)})",
                               "signature": f"e2e:{api}:{op}", "replayed": True}
                        return {"status": "violation", "cex": cex, "cexs": [cex], "paths": n, "nontrivial": n, "detail": cex["message"]}
    finally:
        shutil.rmtree(root, ignore_errors=True)
    return {"status": "holds", "paths": n, "nontrivial": n, "queries": 0, "solver_s": 0.0, "exhaustive": True, "crosschecks": n,
            "samples": [{"filter": "c != 0.5", "expected_keys": [1, 3, 4]}], "detail": f"{n} concrete API x filter cases"}


SCALAR = ["==", "!=", "<", "<=", ">", ">=", "is_null", "is_not_null"]


def obligations(tier):
    obs = []
    T = 200 if tier == "quick" else 900
    for op in SCALAR:
        for kind in ("int", "float", "str", "bool"):
            if kind == "bool" and op in ("<", "<=", ">", ">="):
                continue
            obs.append(Ob(f"sem.{kind}.{op}", f"vf.props.c12:sem_{kind}", {"OP": op}, engine="crosshair", timeout=T,
                          bounds=f"row value Optional[{kind}]{' (len<=2)' if kind == 'str' else ''}, symbolic literal, operator {op}", weight=3))
    for op in ("in", "not_in"):
        for kind in ("int", "float", "str"):
            obs.append(Ob(f"sem.{kind}.{op}", f"vf.props.c12:sem_{kind}_list", {"OP": op}, engine="crosshair", timeout=T,
                          bounds=f"row value Optional[{kind}], list of <= 2 Optional literals (no NaN), operator {op}", weight=4))
    for kind in ("int", "float"):
        obs.append(Ob(f"sem.{kind}.between", f"vf.props.c12:sem_{kind}_between", {"OP": "between"}, engine="crosshair", timeout=T,
                      bounds=f"row value Optional[{kind}], symbolic (lo, hi)", weight=3))
    pairs = [("==", "<"), ("not_in", ">=")] if tier == "quick" else [(a, b) for a in ("==", "!=", "<", "in", "not_in", "is_null") for b in ("<", ">=", "!=", "is_not_null")]
    for a, b in pairs:
        if a in ("in", "not_in"):
            continue
        obs.append(Ob(f"sem.conj.{a}.{b}", "vf.props.c12:sem_conj", {"OP": a, "OP2": b}, engine="crosshair", timeout=T,
                      bounds="conjunction over an int and a float column", weight=4))
    obs.append(Ob("sem.bare_equality", "vf.props.c12:sem_bare_equality", {}, engine="crosshair", timeout=T, bounds="{'c': value} form", weight=2))
    obs.append(Ob("malformed.unknown_op", "vf.props.c12:unknown_op_raises", {}, engine="crosshair", timeout=T, allow_inconclusive=True,
                  bounds="symbolic operator string len <= 3 outside the operator table must raise ValueError (bug-hunting: str.lower on symbolic str)", weight=3))
    obs.append(Ob("native.aliases_malformed", "vf.props.c12:aliases_and_malformed", {}, engine="native", timeout=120,
                  bounds="every operator alias, {'c': None}, unknown operators (finite list); shim vs pyarrow.compute grid", weight=1))
    obs.append(Ob("native.e2e_grid", "vf.props.c12:e2e_grid", {}, engine="native", timeout=300,
                  bounds="concrete boundary grid (NULL, NaN, inf, -0.0, '', unicode) x all operators x every API/option, real pyarrow", weight=2))
    obs.append(Ob("native.e2e_bigfile", "vf.props.c12:e2e_grid", {"big": True}, engine="native", timeout=300,
                  bounds="two single appends of 2100 records (writer chunks of 1000), NaN in the middle chunk x all operators x every API/option, real pyarrow", weight=2))
    ops = ["==", "!=", "<", ">=", "in", "not_in", "between", "is_null"] if tier == "quick" else ["==", "!=", "<", "<=", ">", ">=", "in", "not_in", "between", "is_null", "is_not_null"]
    for op in ops:
        obs.append(Ob(f"api.{op}", "vf.props.c12:api_agreement", {"op": op, "_must_reach": ["ran"], "_sample_every": 100}, timeout=T * 2,
                      bounds=f"2 files x 2 rows with symbolic Optional[int] cells in [-3,3], symbolic literal(s), operator {op}, projection in "
                             f"{{all, ['k'], ['k','c']}}, batch size 1..3, every API / verify option", weight=6))
    if tier == "thorough":
        for op in ("==", "not_in", "is_null"):
            obs.append(Ob(f"api.{op}.conj", "vf.props.c12:api_agreement", {"op": op, "with_second": True}, timeout=T * 2,
                          bounds=f"as api.{op} plus a second condition on another column", weight=6))
    return obs
