"""C03 - a crash at any point leaves the table in the pre- or post-operation state.

E2 (symx), single writer.  Rig L at FakeOS SYSCALL granularity (mkstemp/open, write, fsync, close, replace,
directory fsync, unlink, flock, marker write/delete) and Rig S at request granularity.  The crash index is a
solver variable: the process dies BEFORE the k-th rig call takes effect and is frozen afterwards (no finally /
except handler of the dead process can touch storage; the kernel closes its descriptors).  Recovery = fresh
handles on the surviving state."""
from vf.oracles import reader
from vf.props.common import SCH, pointer_flips
from vf.props.singleop import (all_snapshots_readable, is_post, is_pre, min_prior, run_op, setup, summarize)
from vf.rigs.env import Env
from vf.rigs.world import Killed, crash_at
from vf.runner import Ob

LEVEL = "other"
TECHNIQUE = ('symx: symbolic crash index over the complete FakeOS / FakeS3 call trace of each real operation; recovery oracle per path; concrete replay')
EXPLANATION = (
    "Bounded symbolic execution (symx/z3) of every operation type with a symbolic crash index over its complete "
    "trace of storage-level steps; z3 case-splits the index, every feasible crash point is explored (complete for "
    "a single crash), and after each the surviving state is judged by an independent reader, by the library's own "
    "reopen + scan, by a follow-up append and by a follow-up garbage collection past the marker-abandonment timeout.")
RULE = ("one case = one explored path = one crash index (or the no-crash path) of one operation on one prior history; "
        "non-trivial = z3 decided the crash position on it")
ASSUMPTIONS = [
    "content of a single os.write / single PUT is atomic (partial-content durability is C16's power-loss model)",
    "FakeOS / FakeS3 semantics; a dead process's descriptors are closed by the kernel (flock released); on S3 the lock lease (60 s) "
    "has lapsed before recovery commits",
    "single crash per run (crash during the recovery GC is explored in the thorough tier only)",
    "tables with 0..3 prior snapshots",
]
TRUSTED = ["z3 5.1", "vf.symx", "vf.rigs.fakeos / fakes3", "pyarrow + fastavro on concrete data"]


def crash(sp, rig="L", op="append", n_prior=1, second_crash=False):
    with Env(sp, rig=rig, clock="tick") as e:
        w = e.world
        t, pre, ctx = setup(e, op, n_prior)
        k = sp.fresh_int("crash_at", 0, 600)
        flips0 = len(pointer_flips(e))
        base = w.step
        st = crash_at(w, base + 1 + k, who="w")
        acked = False
        with e.as_actor("w"):
            try:
                run_op(e, t, op, ctx)
                acked = True
            except Killed:
                pass
        nsteps = w.step - base
        if e.fos is not None:
            e.fos.kill_process("w")
        w.callbacks.clear()
        sp.note("op", op)
        sp.note("crashed_at_step", (w.trace[-1][2:] if st["fired"] and w.trace else None))
        sp.note("steps_of_op", nsteps)
        sp.reach("after-op")
        flipped = len(pointer_flips(e)) > flips0
        tag = f"{rig}:{op}"
        where = f"{w.trace[-1][2]} {w.trace[-1][3]}" if st["fired"] and w.trace else "no crash"
        try:
            obs = summarize(e)
        except reader.Unreadable as ex:
            sp.require(False, f"{tag}: after a crash before step '{where}' the table is unreadable: {ex}", {"sig": f"{tag}:unreadable"})
            return
        okpre, okpost = is_pre(pre, obs), is_post(pre, obs, op)
        sp.require(okpre or okpost, f"{tag}: crash before '{where}' left neither the pre- nor the post-state: snapshots {len(obs.snaps)} rows {obs.rows} "
                   f"(pre: {len(pre.snaps)} snapshots rows {pre.rows})", {"sig": f"{tag}:neither-pre-nor-post"})
        if op not in ("gc",):
            sp.require(okpre or flipped, f"{tag}: post-state visible although the pointer was never advanced (crash before '{where}')",
                       {"sig": f"{tag}:post-without-flip"})
        if acked:
            sp.require(okpost, f"{tag}: operation returned but the table is not in the post-state", {"sig": f"{tag}:acked-not-post"})
        err = all_snapshots_readable(obs)
        sp.require(err is None, f"{tag}: crash before '{where}': a retained snapshot is not readable: {err}", {"sig": f"{tag}:snapshot-unreadable"})
        # ---- reopen with fresh handles (the library's own recovery)
        if rig == "S":
            w.clock.advance(61_000)
        try:
            t2 = e.table(schema=SCH)
            rows = sorted(r["a"] for r in t2.scan())
        except Killed:
            raise
        except Exception as ex:  # noqa
            sp.require(False, f"{tag}: crash before '{where}': reopening / scanning the table fails: {type(ex).__name__}: {ex}",
                       {"sig": f"{tag}:reopen-fails:{type(ex).__name__}"})
            return
        obs_l = summarize(e)
        sp.require(rows == (obs_l.rows or []), f"{tag}: library scan {rows} != independent reader {obs_l.rows} after reopen", {"sig": f"{tag}:scan-differs"})
        sp.require(rows in ([], sorted(pre.rows or [])) or is_post(pre, obs_l, op) or is_pre(pre, obs_l),
                   f"{tag}: reopened table shows rows {rows}: neither pre nor post (crash before '{where}')", {"sig": f"{tag}:reopen-neither"})
        # ---- follow-up append
        try:
            t2.append_records([{"a": 999}])
        except Killed:
            raise
        except Exception as ex:  # noqa
            sp.require(False, f"{tag}: crash before '{where}': follow-up append fails: {type(ex).__name__}: {ex}",
                       {"sig": f"{tag}:followup-append-fails:{type(ex).__name__}"})
            return
        obs2 = summarize(e)
        sp.require(obs2.rows == sorted(rows + [999]), f"{tag}: follow-up append gives rows {obs2.rows}, expected {sorted(rows + [999])}",
                   {"sig": f"{tag}:followup-rows"})
        # ---- follow-up garbage collection after the marker abandonment timeout
        w.clock.advance(25 * 3600 * 1000)
        with w.inspect():
            before = e.files()
        reach = reader.reachable(obs2.files, obs2.md)
        st2 = None
        if second_crash:
            k2 = sp.fresh_int("crash2_at", 0, 200)
            st2 = crash_at(w, w.step + 1 + k2, who="g")
        try:
            with e.as_actor("g"):
                try:
                    t2.garbage_collect(grace_period_ms=0)
                except Killed:
                    pass
        except Exception as ex:  # noqa
            sp.require(False, f"{tag}: crash before '{where}': follow-up garbage collection raises {type(ex).__name__}: {ex}",
                       {"sig": f"{tag}:gc-raises:{type(ex).__name__}"})
            return
        w.callbacks.clear()
        if e.fos is not None:
            e.fos.kill_process("g")
        with w.inspect():
            after = e.files()
        deleted = set(before) - set(after)
        bad = sorted(deleted & reach)
        sp.require(not bad, f"{tag}: crash before '{where}': the follow-up collection deleted live files {bad}", {"sig": f"{tag}:gc-deleted-live"})
        obs3 = summarize(e)
        err = all_snapshots_readable(obs3)
        sp.require(err is None and obs3.key() == obs2.key(), f"{tag}: table damaged by the follow-up collection: {err}", {"sig": f"{tag}:gc-damaged"})
        if not second_crash or not st2["fired"]:
            left = sorted(p for p in after if (p.startswith("data/") or p.startswith("metadata/manifests/")) and p not in reach
                          and "/.tmp" not in p and not p.rsplit("/", 1)[-1].startswith("tmp"))
            sp.require(not left, f"{tag}: leftovers of the dead operation survive a collection past the grace period: {left}",
                       {"sig": f"{tag}:leftovers"})


def obligations(tier):
    obs = []
    if tier == "quick":
        cfgs = [("L", "create", 0), ("L", "append", 0), ("L", "append", 2), ("L", "append2", 1), ("L", "delete", 2), ("L", "replace", 2),
                ("L", "expire", 3), ("L", "append_expire", 3), ("L", "delsnap_cur", 2), ("L", "delsnap_old", 2), ("L", "gc", 2),
                ("S", "create", 0), ("S", "append", 1), ("S", "delete", 2), ("S", "gc", 2)]
        T = 300
    else:
        cfgs = []
        for rig in ("L", "S"):
            for op in ("create", "append", "append2", "delete", "replace", "expire", "append_expire", "delsnap_cur", "delsnap_old", "gc"):
                for n in sorted({min_prior(op), min(3, min_prior(op) + 1), 3}) if op != "create" else [0]:
                    cfgs.append((rig, op, n))
        T = 1200
    for rig, op, n in cfgs:
        obs.append(Ob(f"crash.{rig}.{op}.n{n}", "vf.props.c03:crash", {"rig": rig, "op": op, "n_prior": n, "_must_reach": ["after-op"], "_sample_every": 40},
                      timeout=T, bounds=f"rig {rig}, operation {op}, {n} prior snapshots, every crash index of the operation's trace",
                      weight=3 + n))
    if tier == "thorough":
        for rig, op, n in (("L", "append", 1), ("L", "delete", 2), ("L", "gc", 2), ("S", "append", 1)):
            obs.append(Ob(f"crash2.{rig}.{op}.n{n}", "vf.props.c03:crash", {"rig": rig, "op": op, "n_prior": n, "second_crash": True},
                          timeout=T, bounds=f"rig {rig}, {op}: every crash index x every crash index of the recovery collection", weight=9))
    return obs
