"""C01 - concurrent commits are serializable.

E2 (symx) + baton-scheduled real threads running the real Table / Transaction / SnapshotManager /
MetadataManager code over Rig L (real LocalStorageBackend + FileLock over FakeOS) and Rig S (real
S3StorageBackend + S3LockProvider over FakeS3, conditional writes).  Solver variables: the schedule (under a
pre-emption bound K), every clock reading of MetadataManager (so 'two commits in one millisecond' is d=0).
Oracle: serial table model applied in pointer-flip order, compared with the independent reader's view."""
from vf.oracles import reader
from vf.props.common import SCH, Model, outcome, pointer_flips, preload, protocol_points
from vf.rigs.env import Env
from vf.runner import Ob
from vf.sched import Sched

LEVEL = "other"
TECHNIQUE = ('symx: z3-backed symbolic execution of the real commit path under a baton scheduler (schedule + commit clock symbolic, pre-emption bound K); serial-model assertions discharged by z3 per path; concrete replay')
EXPLANATION = (
    "Bounded symbolic execution (symx/z3) of the real commit path under a baton scheduler: 2-3 committers, all "
    "interleavings at shared-object granularity within a pre-emption bound K, symbolic clock readings; per path "
    "the serial-model assertions are discharged by z3 and the decision tree is exhausted. Counterexamples "
    "(schedule + clock values) are replayed concretely without the engine before being reported.")
RULE = ("one case = one explored path (one schedule prefix x one feasible class of clock values); non-trivial = path on "
        "which z3 decided at least one scheduling choice or clock comparison")
ASSUMPTIONS = [
    "pre-emption bound K (stated per obligation); more context switches than K are outside the claim",
    "scheduling points only at operations on shared mutable objects (pointer file, lock object/inode, sleeps, in-process locks); "
    "operations on write-once uniquely named files commute and are not points",
    "FakeOS flock semantics / FakeS3 strong consistency with conditional writes; one global clock; uuid4 values distinct",
    "non-CAS S3 is documented best-effort and excluded; > 3 committers excluded",
]
TRUSTED = ["z3 5.1", "vf.symx", "vf.rigs.fakeos / fakes3", "pyarrow + fastavro on concrete data"]

OPS = ["append", "delete", "expire", "delsnap", "twoop"]


def committers(sp, rig="L", topo="separate", ops=("append", "append"), K=2, clock="sym", lock="real", maxd=2):
    with Env(sp, rig=rig, clock=clock, clock_kw={"sites": {"mm"}, "maxd": maxd, "budget": 10}, lock=lock) as e:
        w = e.world
        w.clock.mode = "tick"
        t0, snaps = preload(e, 3)
        w.clock.mode = clock
        ids = [s.snapshot_id for s in snaps]
        with w.inspect():
            files0 = e.files()
        name0, md0 = reader.current_metadata(files0, loads=e.symjson.loads)
        file_of_row = {}
        rows_of = {}
        for s in md0["snapshots"]:
            rows_of[s["snapshot_id"]] = set(reader.snapshot_rows(files0, s, "a"))
            for p, ent in reader.snapshot_files(files0, s):
                r = reader.pq.read_table(reader.io.BytesIO(files0[p])).to_pylist()[0]["a"]
                file_of_row[r] = "/" + p
        model = Model(ids, rows_of, ids[-1])
        ts_of = {s.snapshot_id: s.timestamp_ms for s in snaps}
        flips_before = len(pointer_flips(e))
        handles = [t0 if topo == "shared" else e.table() for _ in ops]
        acts = []
        for i, kind in enumerate(ops):
            t = handles[i]
            if kind == "append":
                acts.append((lambda t=t, i=i: t.append_records([{"a": 10 + i}]), ("append", [10 + i])))
            elif kind == "delete":
                def f(t=t, i=i):
                    with t.new_transaction() as tx:
                        tx.delete_files([file_of_row[1 + i]])
                        return tx.commit()
                acts.append((f, ("delete_rows", [1 + i])))
            elif kind == "expire":
                def f(t=t):
                    with t.new_transaction() as tx:
                        tx.expire_snapshots(ts_of[ids[1]])
                        return tx.commit()
                acts.append((f, ("expire_ids", [ids[0]])))
            elif kind == "delsnap":
                sid = ids[1] if i == 0 else ids[0]
                acts.append((lambda t=t, sid=sid: t.snapshot_manager.delete_snapshot(sid), ("delete_snapshot", sid)))
            elif kind == "twoop":
                def f(t=t, i=i):
                    with t.new_transaction() as tx:
                        tx.append_data([{"a": 20 + i}])
                        tx.delete_files([file_of_row[3 - i]])
                        return tx.commit()
                acts.append((f, ("replace", [20 + i], [3 - i])))
            else:
                raise ValueError(kind)
        sc = Sched(sp, K=K, world=w)
        w.yield_filter = protocol_points
        for i, (fn, _) in enumerate(acts):
            sc.spawn(i, lambda fn=fn: outcome(fn))
        w.sched = sc
        try:
            sc.run()
        finally:
            w.sched = None
        for tid, err in sc.errors.items():
            raise AssertionError(f"actor {tid} crashed in harness: {err!r}")
        res = sc.results
        flips = pointer_flips(e)[flips_before:]
        trace = sc.trace_str()
        sp.note("schedule", trace)
        sp.note("outcomes", {i: res[i][0] for i in res})
        sp.reach("ran")
        info = {"sig": None}
        # every acknowledged commit flipped the pointer exactly once; every raised one not at all
        for i, (fn, mop) in enumerate(acts):
            n = sum(1 for (_, a, _) in flips if a == i)
            if res[i][0] == "ok":
                ok = n == 1 if not (mop[0] == "delete_snapshot" and res[i][1] is False) else n == 0
                sp.require(ok, f"acknowledged {ops[i]} by actor {i} advanced the pointer {n} times (schedule {trace})",
                           {"sig": f"acked-{ops[i]}-flips-{n}"})
            else:
                sp.require(n == 0, f"{ops[i]} by actor {i} raised {res[i][1]!r} but advanced the pointer {n} times (schedule {trace})",
                           {"sig": f"raised-{ops[i]}-{res[i][0]}-flips-{n}"})
                # (any exception type is a legitimate "raised" outcome for C01 - e.g. a lock-acquisition TimeoutError when the holder is
                #  starved for 30 s of virtual time; what matters is that a raised commit is not reflected, asserted above and below)
        # apply acknowledged commits in pointer-flip order
        for (_, a, _) in flips:
            if a in res and res[a][0] == "ok":
                model.apply(acts[a][1])
        with w.inspect():
            files = e.files()
        name, md = reader.current_metadata(files, loads=e.symjson.loads)
        final_ids = [s["snapshot_id"] for s in md["snapshots"]]
        new_actual = [s for s in md["snapshots"] if s["snapshot_id"] not in ids]
        old_expected = [x for x in model.order if not isinstance(x, tuple)]
        new_expected = [x for x in model.order if isinstance(x, tuple)]
        kinds = "+".join(ops)
        sp.require([x for x in final_ids if x in ids] == old_expected and len(new_actual) == len(new_expected),
                   f"{kinds}: retained snapshots {['S%d' % (ids.index(x) + 1) if x in ids else 'new' for x in final_ids]} but serial "
                   f"application of the acknowledged commits gives {['S%d' % (ids.index(x) + 1) if x in ids else 'new' for x in model.order]} "
                   f"(outcomes {[res[i][0] for i in sorted(res)]}, schedule {trace})",
                   {"sig": f"{kinds}:snapshot-set-differs"})
        amap = {m: s for m, s in zip(new_expected, new_actual)}
        for m, s in amap.items():
            got = sorted(reader.snapshot_rows(files, s, "a"))
            sp.require(got == sorted(model.rows[m]), f"{kinds}: snapshot {m} rows {got} != serial model {sorted(model.rows[m])} (schedule {trace})",
                       {"sig": f"{kinds}:rows-differ"})
            par = model.parents[m]
            exp_par = amap[par]["snapshot_id"] if isinstance(par, tuple) else par
            sp.require(s.get("parent_snapshot_id") == exp_par or (s.get("parent_snapshot_id") not in final_ids and exp_par not in final_ids),
                       f"{kinds}: snapshot chain not linear: parent of {m} (schedule {trace})", {"sig": f"{kinds}:chain"})
        cur = md.get("current_snapshot_id")
        exp_cur = amap[model.current]["snapshot_id"] if isinstance(model.current, tuple) else model.current
        sp.require(cur == exp_cur, f"{kinds}: current snapshot differs from the serial model (schedule {trace})", {"sig": f"{kinds}:current"})
        seqs = [s.get("sequence_number") for s in md["snapshots"]]
        sp.require(all(a < b for a, b in zip(seqs, seqs[1:])) and md["last_sequence_number"] >= max(seqs),
                   f"{kinds}: sequence numbers not strictly increasing: {seqs} (schedule {trace})", {"sig": f"{kinds}:seq"})
        rows = reader.current_rows(files, "a", loads=e.symjson.loads)
        sp.require(rows == sorted(model.cur_rows()), f"{kinds}: final rows {rows} != serial model {sorted(model.cur_rows())} "
                   f"(outcomes {[res[i][0] for i in sorted(res)]}, schedule {trace})", {"sig": f"{kinds}:final-rows"})


def obligations(tier):
    obs = []
    if tier == "quick":
        cfgs = [("L", "separate", ("append", "append"), 2), ("L", "shared", ("append", "append"), 2),
                ("L", "separate", ("expire", "delsnap"), 2), ("L", "separate", ("delsnap", "delsnap"), 2),
                ("L", "separate", ("append", "expire"), 2), ("S", "separate", ("append", "append"), 2),
                ("S", "separate", ("delsnap", "delsnap"), 2), ("L", "separate", ("twoop", "delete"), 2)]
        T = 240
    else:
        cfgs = []
        for i, a in enumerate(OPS):
            for b in OPS[i:]:
                cfgs.append(("L", "separate", (a, b), 3))
        for a, b in [("append", "append"), ("append", "expire"), ("delsnap", "delsnap"), ("twoop", "delete"), ("expire", "delsnap")]:
            cfgs.append(("L", "shared", (a, b), 3))
            cfgs.append(("S", "separate", (a, b), 3))
        cfgs += [("L", "separate", ("append", "append", "delsnap"), 2), ("L", "separate", ("append", "expire", "delete"), 2),
                 ("S", "separate", ("append", "append", "delsnap"), 1), ("L", "shared", ("append", "append", "append"), 1),
                 ("L", "separate", ("append", "append", "expire", "delsnap"), 1)]
        T = 1500
    for rig, topo, ops, K in cfgs:
        obs.append(Ob(f"sched.{rig}.{topo}.{'+'.join(ops)}.K{K}", "vf.props.c01:committers",
                      {"rig": rig, "topo": topo, "ops": list(ops), "K": K, "_must_reach": ["ran"]}, timeout=T,
                      bounds=f"rig {rig}, {topo} handles, committers {ops}, pre-emption bound K={K}, symbolic commit clock (delta 0..2 ms), "
                             f"table pre-loaded with 3 snapshots", weight=len(ops) * K))
    # vacuity witness: with a lock that excludes nobody and no CAS the same harness must find a lost update
    obs.append(Ob("witness.L.grantall.append+append", "vf.props.c01:committers",
                  {"rig": "L", "topo": "separate", "ops": ["append", "append"], "K": 2, "lock": "grantall", "clock": "tick"},
                  timeout=240, expect="violation", bounds="must-fail twin: local backend with a lock granting everyone", weight=3))
    return obs
