"""C05 - garbage collection never deletes anything reachable or in flight.

(a) E1 (CrossHair) on the real GarbageCollector._normalize_path with a SYMBOLIC table location: every spelling the
    library itself produces for one file normalises to the same key, distinct files to distinct keys.
(b) E2 (symx) histories: a solver-chosen sequence of real operations (append, multi-append, file delete, replace,
    expire, delete-snapshot, open transaction, collection with a solver-chosen grace period and idle time) on real
    backends, for each spelling of the table location; after every collection the deleted set is compared with the
    independently computed reachable set of ALL retained snapshots and the files of open transactions."""
from datashard.garbage_collector import GarbageCollector

from vf.props import history as H
from vf.rigs.env import Env
from vf.runner import Ob

LEVEL = "other"
TECHNIQUE = ('CrossHair (z3) on the real path normalisation with a symbolic table location + symx over solver-chosen operation histories on real backends for each location spelling + symbolic injection point of a collection inside a live transaction')
EXPLANATION = (
    "CrossHair/z3 over the real path normalisation with a symbolic table location (<= 6 chars) and file name; "
    "symx/z3 exploration of all operation histories up to the length bound (operation kinds, targets, grace "
    "period, idle time are solver choices) on the real local / S3 backends for every location spelling, with the "
    "reachability oracle evaluated after every collection; plus a complete collection injected atomically before every "
    "storage call (symbolic index) of a live transaction; decision tree exhausted per obligation.")
RULE = ("E1: one case = one z3 query; E2: one case = one explored history (path); non-trivial = the solver chose at least one "
        "operation kind / target on it")
ASSUMPTIONS = [
    "histories up to the stated length; grace period in {0, 1 h, 30 d}; idle time before a collection in {5 ms, 2 h}; <= 2 open transactions",
    "collections injected into a live transaction run atomically between two of its storage calls (interleaved runs are C06's subject)",
    "location strings in part (a) up to 6 characters, file names up to 3; part (b) uses the concrete spelling list of the property",
    "FakeOS (symlinks, relative paths via a cwd) / FakeS3 semantics; mtime = virtual time of the last write",
]
TRUSTED = ["CrossHair 0.0.110", "z3 5.1", "vf.symx", "vf.rigs.fakeos / fakes3"]

ABSOLUTE = False


def _gc(table_path):
    g = GarbageCollector.__new__(GarbageCollector)
    g.table_path = table_path
    return g


def norm_consistent(table_path: str, name: str, sub: int) -> bool:
    """
    pre: 1 <= len(table_path) <= 6 and 1 <= len(name) <= 3 and 0 <= sub <= 1
    pre: "/" not in name and not table_path.endswith("/")
    pre: table_path.startswith("/") == ABSOLUTE
    post: _
    """
    g = _gc(table_path)
    d = "data" if sub == 0 else "metadata/manifests"
    listed = d + "/" + name  # what list_files() returns
    iceberg = "/" + d + "/" + name  # what manifests record ('/data/x') / '/metadata/manifests/x'
    plain = d + "/" + name  # marker payloads, manifest-list paths
    forms = [listed, iceberg, plain]
    if ABSOLUTE:
        forms.append(table_path + "/" + d + "/" + name)  # a true absolute path inside the table
    keys = [g._normalize_path(f) for f in forms]
    if any(k != keys[0] for k in keys):
        return False
    # a different file never collides with it
    other = g._normalize_path("/" + d + "/" + name + "x")
    return other != keys[0] and keys[0] == d + "/" + name


def norm_consistent__samples():
    if ABSOLUTE:
        return [("/t", "f", 0), ("/data", "f", 0), ("/a/b", "x", 1), ("/m", "f", 1)]
    return [("t", "f", 0), ("data", "f", 0), ("d", "f", 0), ("metada", "m", 1), ("m", "f", 1), ("./t", "f", 0)]


def norm_consistent__signature(table_path, name, sub):
    d = "data" if sub == 0 else "metadata/manifests"
    kind = "prefix-of-internal-dir" if (d + "/").startswith(table_path.lstrip("/")) or ("/" + d).startswith(table_path) else "other"
    return f"normalize:{'abs' if table_path.startswith('/') else 'rel'}:{kind}"


SPELLINGS = {
    "abs": dict(rig="L", root="/wh/tbl"),
    "trailing": dict(rig="L", root="/wh/tbl/"),
    "rel": dict(rig="L", root="tbl"),
    "dotrel": dict(rig="L", root="./tbl"),
    "symlink": dict(rig="L", root="/lnk", link=("/lnk", "/wh/real")),
    "rel_d": dict(rig="L", root="d"),
    "rel_data": dict(rig="L", root="data"),
    "rel_m": dict(rig="L", root="m"),
    "rel_metadata": dict(rig="L", root="metadata"),
    "abs_data": dict(rig="L", root="/data"),
    "s3_p": dict(rig="S", root="tbl", prefix="p"),
    "s3_data": dict(rig="S", root="tbl", prefix="data"),
    "s3_pq": dict(rig="S", root="tbl", prefix="p/q"),
    "s3_empty": dict(rig="S", root="tbl", prefix=""),
}


def gc_history(sp, spelling="abs", L=3, first=None, second=None, ops=None):
    cfg = SPELLINGS[spelling]
    with Env(sp, rig=cfg["rig"], root=cfg["root"], s3_prefix=cfg.get("prefix", "tbl"), clock="tick") as e:
        if "link" in cfg:
            e.fos.mkdir_durable(cfg["link"][1])
            e.fos.put_symlink(cfg["link"][0], cfg["link"][1])
        ops = ops or ["append", "delete", "replace", "expire", "delsnap", "gc", "open_txn", "contended_commit"]
        h = H.History(sp, e, ops, checks=[H.check_state, H.check_gc])
        # a fixed prefix so every history has something to collect around: one transaction adding TWO files (so that a later file delete
        # rewrites a manifest that keeps a survivor) and a plain append
        h.ops = ["append2"]
        h.step(-2)
        h.ops = ["append"]
        h.step(-1)
        h.ops = ops
        if first is not None:
            h.ops = [first]
            h.step(0)
            k0 = 1
            if second is not None:
                h.ops = [second]
                h.step(1)
                k0 = 2
            h.ops = ops
            for k in range(k0, L):
                h.step(k)
        else:
            h.run(L)
        # close with a collection past every grace period, so each history ends on the oracle
        h.ops = ["gc"]
        h.step(L)
        sp.note("history", list(h.trail))
        sp.reach("ran")


def gc_inside_txn(sp, spelling="abs", second=False):
    """A LIVE transaction at an arbitrary point of its progress (the '0..k open transactions' of the property, taken at storage-call
    granularity): while handle A runs append_data + commit, a complete collection by another handle runs ATOMICALLY before A's k-th
    storage call (k symbolic, grace period 0 or the default; in the two-collection variant the first one (grace 0) runs inside append_data,
    the transaction then sits idle for 2 h, and the second one runs inside commit()).  Whatever the collection does, it must not delete a file that A has registered (in-flight marker written, transaction still
    live) or that a retained snapshot references; if A's commit is acknowledged every file of its snapshot is present."""
    import json as _json
    from vf.oracles import reader
    from vf.props.common import SCH
    from vf.props.singleop import all_snapshots_readable, summarize
    cfg = SPELLINGS[spelling]
    with Env(sp, rig=cfg["rig"], root=cfg["root"], s3_prefix=cfg.get("prefix", "tbl"), clock="tick") as e:
        w = e.world
        if "link" in cfg:
            e.fos.mkdir_durable(cfg["link"][1])
            e.fos.put_symlink(cfg["link"][0], cfg["link"][1])
        t = e.table(schema=SCH)
        with t.new_transaction() as tx0:
            tx0.append_data([{"a": 1}])
            tx0.append_data([{"a": 2}])
            tx0.commit()
        t.append_records([{"a": 3}])
        pre = summarize(e)
        ta = e.table()
        tg = e.table()
        registered = set()   # table-relative targets of every marker the live transaction has written so far
        state = {"live": True, "gcs": 0, "deleted_registered": [], "deleted_reachable": [], "gc_error": None}

        def note_markers():
            with w.inspect():
                for p, raw in e.files().items():
                    if p.startswith("metadata/inflight/") and p.endswith(".inflight"):
                        try:
                            registered.add(_json.loads(raw.decode())["file_path"].lstrip("/"))
                        except Exception:  # noqa
                            pass

        def collect(grace):
            note_markers()
            with w.inspect():
                before = e.files()
            name, md = reader.current_metadata(before, loads=e.symjson.loads)
            reach = reader.reachable(before, md)
            cbs, w.callbacks = w.callbacks, []
            try:
                with e.as_actor("g"):
                    tg.garbage_collect(grace_period_ms=grace)
            except Exception as ex:  # noqa
                state["gc_error"] = f"{type(ex).__name__}: {str(ex)[:80]}"
            finally:
                w.callbacks = cbs
            with w.inspect():
                after = e.files()
            gone = set(before) - set(after)
            state["gcs"] += 1
            state["deleted_reachable"] += sorted(gone & reach)
            if state["live"]:
                state["deleted_registered"] += sorted(p for p in gone if p in registered)

        k1 = sp.fresh_int("gc_before_call", 0, 400)
        g1 = 0 if second else [0, 3600_000][sp.choose(2, name="grace1")]
        fired = {"n": 0, "base": w.step, "phase": "write"}

        def inject(w_, label, info, a):
            if a != "a":
                return
            if fired["n"] == 0 and (not second or fired["phase"] == "write") and w_.step == fired["base"] + 1 + k1:
                fired["n"] = 1
                collect(g1)
            elif second and fired["n"] == 1 and fired["phase"] == "commit" and w_.step == fired["base2"] + 1 + fired["k2"]:
                fired["n"] = 2
                collect(fired["g2"])
        w.callbacks.append(inject)
        acked = False
        err = None
        with e.as_actor("a"):
            txa = ta.new_transaction()
            txa.begin()
            try:
                txa.append_data([{"a": 100}])
                w.clock.advance(2 * 3600_000)     # the transaction sat idle: its data file is older than any grace period used here
                if second:
                    # two collections: the first (grace 0) somewhere inside append_data, the second somewhere inside commit()
                    if fired["n"] != 1:
                        sp.assume(False)
                    fired["phase"] = "commit"
                    fired["base2"] = w.step
                    fired["k2"] = sp.fresh_int("second_gc_before_commit_call", 0, 400)
                    fired["g2"] = [0, 3600_000][sp.choose(2, name="grace2")]
                txa.commit()
                acked = True
            except Exception as ex:  # noqa
                from vf.symx import PathAbort
                if isinstance(ex, PathAbort):
                    raise
                err = f"{type(ex).__name__}: {str(ex)[:80]}"
                try:
                    txa.rollback()
                except Exception:  # noqa
                    pass
        state["live"] = False
        w.callbacks.clear()
        sp.note("collections", state["gcs"])
        sp.note("outcome", "ok" if acked else err)
        sp.reach("ran")
        tag = f"gc-inside-txn:{spelling}"
        sp.require(not state["deleted_reachable"], f"{tag}: a collection (grace {g1} ms) running before the transaction's storage call #{k1} deleted files "
                   f"referenced by a retained snapshot: {state['deleted_reachable']}", {"sig": "gc:deleted-reachable"})
        sp.require(not state["deleted_registered"], f"{tag}: a collection running inside a live transaction deleted files the transaction had registered: "
                   f"{state['deleted_registered']}", {"sig": "gc:deleted-registered-by-live-transaction"})
        try:
            obs = summarize(e)
            bad = all_snapshots_readable(obs)
        except reader.Unreadable as ex:
            bad = str(ex)
            obs = None
        sp.require(bad is None, f"{tag}: after a collection inside the transaction (commit {'acknowledged' if acked else 'raised ' + str(err)}) a retained "
                   f"snapshot is not readable: {bad}", {"sig": "gc:snapshot-unreadable-after-collection-inside-transaction"})
        if obs is not None:
            exp = sorted(pre.rows + [100]) if acked else sorted(pre.rows)
            sp.require(obs.rows == exp, f"{tag}: commit {'acknowledged' if acked else 'raised'}, rows {obs.rows}, expected {exp}", {"sig": "gc-inside-txn:rows"})


def obligations(tier):
    obs = []
    T = 240 if tier == "quick" else 900
    for ab in (False, True):
        obs.append(Ob(f"a.normalize.{'abs' if ab else 'rel'}", "vf.props.c05:norm_consistent", {"ABSOLUTE": ab}, engine="crosshair", timeout=T,
                      bounds=f"{'absolute' if ab else 'relative'} table location, symbolic str len <= 6, file name len <= 3, data/ and metadata/manifests/",
                      weight=6))
    firsts_all = ["append", "delete", "replace", "expire", "delsnap", "gc", "open_txn", "contended_commit"]
    if tier == "quick":
        # (the L=2 tree below the 3-file prefix holds ~3.5 k histories: partitioned by the first operation so that every piece is exhausted)
        plan = [(s, f, 2, T) for s in ["abs", "rel", "symlink", "rel_data", "rel_d", "trailing", "s3_p", "s3_data"] for f in firsts_all]
    else:
        # sized from a measured run (an L=3 sub-tree below one first operation: 4-10 k histories, ~10 min): every spelling with histories
        # of 2; the spellings 'abs', 'rel_data', 'symlink', 's3_p', 's3_data' with histories of 3, partitioned by the first operation
        plan = [(s, None, 2, 900) for s in SPELLINGS]
        plan += [(s, f, 3, 1500) for s in ("abs", "rel_data", "symlink", "s3_p", "s3_data") for f in firsts_all]
    for s, f, L, TT in plan:
        obs.append(Ob(f"b.history.{s}{'.' + f if f else ''}.L{L}", "vf.props.c05:gc_history",
                      {"spelling": s, "L": L, "first": f, "_must_reach": ["ran"], "_sample_every": 25}, timeout=TT,
                      bounds=f"location spelling '{s}' ({SPELLINGS[s]}), 2-file append + append + {L} solver-chosen operations"
                             f"{' starting with ' + f if f else ''} + a final collection", weight=L + 2, allow_inconclusive=(L >= 3)))
    for sname in (["abs", "s3_p"] if tier == "quick" else ["abs", "rel_data", "symlink", "s3_p", "s3_data"]):
        for second in (False, True):
            if tier == "quick" and second and sname != "s3_p":
                continue
            obs.append(Ob(f"c.gc_inside_txn.{sname}{'.two' if second else ''}", "vf.props.c05:gc_inside_txn",
                          {"spelling": sname, "second": second, "_must_reach": ["ran"], "_sample_every": 40}, timeout=T * (1 if tier == "quick" else 3),
                          bounds=f"location '{sname}': a full collection (grace 0 / 1 h) atomically before every storage call of a live transaction's "
                                 f"append_data + commit{' - two collections: one inside append_data, 2 h idle, one inside commit()' if second else ''}", weight=5))
    return obs
