"""C16 - commits are durable: the pointer never outruns the data it references.

E2 (symx) on Rig L with FakeOS's DURABILITY SHADOW (per inode: content as of its last fsync; per directory:
entries as of its last directory fsync).  Two complementary obligations over the real write paths
(LocalStorageBackend.write_file, DataFileWriter.close, MetadataManager commit order):

 power-loss index   the power is lost before the k-th FakeOS call of the operation (k symbolic, every index
                    explored); the surviving state must be the pre- or post-state with every file reachable from
                    the surviving pointer present and complete; an ACKNOWLEDGED commit must survive.
 flip-instant       at the instant of every pointer rename (also with two concurrent writers under the baton
                    scheduler), every file reachable from the new version is already flushed and linked."""
from vf.oracles import reader
from vf.props.common import is_hint, HINT, SCH, outcome, pointer_flips, protocol_points
from vf.props.singleop import is_post, is_pre, min_prior, run_op, setup, summarize
from vf.rigs.env import Env
from vf.rigs.world import Killed, crash_at
from vf.runner import Ob
from vf.sched import Sched

LEVEL = "other"
TECHNIQUE = ('symx: symbolic power-loss index over the FakeOS call trace in a durability-shadow model + flip-instant durability assertion under symbolic schedules + symbolic failing-fsync index; must-fail twins')
EXPLANATION = (
    "Bounded symbolic execution (symx/z3) of every local operation type with a symbolic power-loss index over its "
    "complete FakeOS call trace, evaluated in a power-loss model that drops all unflushed content and unpersisted "
    "renames; plus the flip-instant durability assertion on every pointer rename including two scheduled writers (also "
    "pre-empted around every directory fsync), and a symbolic index of the file / directory fsync that fails with EIO.")
RULE = "one case = one explored path (one power-loss index, or one schedule); non-trivial = z3 decided the index / a scheduling choice"
ASSUMPTIONS = [
    "power-loss model: surviving content = content at the file's last fsync, surviving directory entries = entries at the directory's last fsync",
    "directory CREATION (mkdir) and the table root's own entry are assumed durable at once; only file entries need a directory fsync",
    "Python file objects buffer in user space until flush()/close() (FakeFile); the Parquet writer leaves its bytes in the page cache (unflushed)",
    "real file systems' re-ordering, partial persistence of one write, and S3 are outside the claim",
]
TRUSTED = ["z3 5.1", "vf.symx", "vf.rigs.fakeos durability shadow"]


def durability_problems(fos, root, hint_bytes, loads):
    """At a pointer-flip instant: problems with files reachable from the version `hint_bytes` names."""
    live = {p[len(root) + 1:]: d for p, d in fos.files(root).items()}
    dur = {p[len(root) + 1:]: d for p, d in fos.after_power_loss(root).items()}
    dur = dict(dur)
    dur[HINT] = hint_bytes
    live = dict(live)
    live[HINT] = hint_bytes
    try:
        name, md = reader.current_metadata(live, loads=loads)
        need = set(reader.reachable(live, md)) | {"metadata/" + name}
    except reader.Unreadable as ex:
        return [f"new version unreadable even before power loss: {ex}"]
    out = []
    for p in sorted(need):
        if p not in dur:
            out.append(f"{p}: directory entry not persisted")
        elif dur[p] != live[p]:
            out.append(f"{p}: only {len(dur[p])} of {len(live[p])} bytes flushed")
    return out


def powerloss(sp, op="append", n_prior=1, drop_fsync=None):
    with Env(sp, rig="L", clock="tick") as e:
        w = e.world
        if drop_fsync:
            # must-fail twin: the MODEL ignores fsync of matching files - the harness has to notice
            real_fsync = e.fos.fsync

            def lossy(fd):
                ofd = e.fos.fds.get(fd)
                if ofd is not None and drop_fsync in ofd.path and not ofd.isdir:
                    w.point("fsync", fd=fd, path=ofd.path)
                    return
                return real_fsync(fd)
            e.fos.fsync = lossy
        t, pre, ctx = setup(e, op, n_prior)
        # everything written by the setup is made durable (it is the pre-state of THIS operation)
        fos = e.fos

        def persist(d):
            d.durable = dict(d.entries)
            for n, x in d.entries.items():
                if x.kind == "dir":
                    persist(x)
                elif x.kind == "file":
                    x.flushed = x.data
        persist(fos.root)
        k = sp.fresh_int("powerloss_at", 0, 600)
        flips0 = len(pointer_flips(e))
        base = w.step
        st = crash_at(w, base + 1 + k, who="w")
        acked = False
        with e.as_actor("w"):
            try:
                run_op(e, t, op, ctx)
                acked = True
            except Killed:
                pass
        where = f"{w.trace[-1][2]} {w.trace[-1][3]}" if st["fired"] and w.trace else "after the operation returned"
        w.callbacks.clear()
        fos.power_loss()
        sp.note("op", op)
        sp.note("power_lost_before", where)
        sp.reach("after-op")
        tag = f"powerloss:{op}"
        try:
            obs = summarize(e)
        except reader.Unreadable as ex:
            sp.require(False, f"{tag}: power loss before '{where}': the surviving pointer leads to missing / partial files: {ex}",
                       {"sig": f"{tag}:pointer-outruns-data"})
            return
        try:
            if obs.md is not None:
                for s in obs.md["snapshots"]:
                    reader.snapshot_rows(obs.files, s, "a")
        except reader.Unreadable as ex:
            sp.require(False, f"{tag}: power loss before '{where}': a retained snapshot lost data: {ex}", {"sig": f"{tag}:snapshot-lost-data"})
            return
        okpre, okpost = is_pre(pre, obs), is_post(pre, obs, op)
        sp.require(okpre or okpost, f"{tag}: power loss before '{where}' left neither pre nor post state (rows {obs.rows})", {"sig": f"{tag}:neither"})
        if acked:
            sp.require(okpost, f"{tag}: the operation was acknowledged but does not survive a power loss", {"sig": f"{tag}:acked-not-durable"})
        # recovery: reopen + follow-up append
        try:
            t2 = e.table(schema=SCH)
            rows = sorted(r["a"] for r in t2.scan())
            t2.append_records([{"a": 999}])
            rows2 = sorted(r["a"] for r in t2.scan())
        except Exception as ex:  # noqa
            sp.require(False, f"{tag}: power loss before '{where}': recovery fails: {type(ex).__name__}: {ex}", {"sig": f"{tag}:recovery-fails"})
            return
        sp.require(rows == (obs.rows or []) and rows2 == sorted(rows + [999]), f"{tag}: recovery rows {rows} / {rows2}", {"sig": f"{tag}:recovery-rows"})


def fsync_fault(sp, op="append", n_prior=1, dirs=False):
    """The k-th fsync of a FILE (k symbolic) reports an I/O error (nothing is flushed).  If the operation is nevertheless
    acknowledged, it must survive a power loss right after it returned; in no case may the surviving pointer lead to missing /
    partial files.  (Directory-fsync errors are tolerated by design on file systems without directory fsync and are not injected.)"""
    import errno as _errno
    with Env(sp, rig="L", clock="tick") as e:
        w = e.world
        t, pre, ctx = setup(e, op, n_prior)
        fos = e.fos

        def persist(d):
            d.durable = dict(d.entries)
            for n, x in d.entries.items():
                if x.kind == "dir":
                    persist(x)
                elif x.kind == "file":
                    x.flushed = x.data
        persist(fos.root)
        k = sp.fresh_int("failing_fsync", 0, 40)
        seen = {"n": 0, "fired": None}

        def cb(w_, label, info, a):
            if label != "fsync":
                return
            ofd = fos.fds.get(info.get("fd"))
            if ofd is None or bool(ofd.isdir) != bool(dirs):
                return
            hit = bool(seen["n"] == k)
            seen["n"] += 1
            if hit:
                seen["fired"] = ofd.path
                raise OSError(_errno.EIO, "injected fsync failure")
        w.callbacks.append(cb)
        acked = False
        try:
            run_op(e, t, op, ctx)
            acked = True
        except Exception:  # noqa
            pass
        w.callbacks.clear()
        if dirs:
            # a failing DIRECTORY fsync is tolerated by design (file systems without directory fsync); what may never happen - with or
            # without a power loss - is a pointer that names files the library itself removed while handling that error
            try:
                o0 = summarize(e)
                if o0.md is not None:
                    for s_ in o0.md["snapshots"]:
                        reader.snapshot_rows(o0.files, s_, "a")
                ok0 = is_pre(pre, o0) or is_post(pre, o0, op)
            except reader.Unreadable as ex:
                sp.require(False, f"fsync-fault:{op}: the fsync of directory {seen['fired']} failed, the operation {'was acknowledged' if acked else 'raised'} "
                           f"and the pointer now leads to missing files: {ex}", {"sig": f"fsync-fault:{op}:dir:pointer-names-missing-files"})
                return
            sp.require(ok0, f"fsync-fault:{op}: directory fsync failure left neither pre nor post state", {"sig": f"fsync-fault:{op}:dir:neither"})
            if acked:
                sp.require(is_post(pre, o0, op), f"fsync-fault:{op}: acknowledged but not in the post-state", {"sig": f"fsync-fault:{op}:dir:acked-not-post"})
            else:
                sp.require(is_pre(pre, o0), f"fsync-fault:{op}: the operation raised on a directory-fsync error but its effect is visible "
                           f"(the error arrived after the rename)", {"sig": f"fsync-fault:{op}:dir:raised-but-applied"})
            sp.note("failing_fsync_of", seen["fired"])
            sp.note("acknowledged", acked)
            sp.reach("ran")
            return
        fos.power_loss()
        sp.note("failing_fsync_of", seen["fired"])
        sp.note("acknowledged", acked)
        sp.reach("ran")
        tag = f"fsync-fault:{op}"
        try:
            obs = summarize(e)
            if obs.md is not None:
                for s_ in obs.md["snapshots"]:
                    reader.snapshot_rows(obs.files, s_, "a")
        except reader.Unreadable as ex:
            sp.require(False, f"{tag}: fsync of {seen['fired']} failed, the operation {'was acknowledged' if acked else 'raised'}, and after a power loss "
                       f"the pointer leads to missing / partial files: {ex}", {"sig": f"{tag}:pointer-outruns-data"})
            return
        if acked:
            sp.require(is_post(pre, obs, op), f"{tag}: acknowledged although the fsync of {seen['fired']} failed, and the commit does not survive a power loss",
                       {"sig": f"{tag}:acked-not-durable"})
        else:
            sp.require(is_pre(pre, obs) or is_post(pre, obs, op), f"{tag}: neither pre nor post state after power loss", {"sig": f"{tag}:neither"})


def flip_instant(sp, ops=("append", "append"), K=2, dirsync_points=False):
    with Env(sp, rig="L", clock="tick") as e:
        w = e.world
        t0 = e.table(schema=SCH)
        t0.append_records([{"a": 1}])
        root = e.fos._resolve(e.root)[0]
        problems = []

        def hook(fos, src, dst):
            if dst.endswith(HINT):
                with w.inspect():
                    content = fos._lookup(dst).data
                    pr = durability_problems(fos, root, content, e.symjson.loads)
                if pr:
                    problems.append((w.step, pr))

        e.fos.after_rename.append(hook)
        handles = [t0] + [e.table() for _ in ops[1:]]
        from vf.props.singleop import file_of_row
        ctxs = []
        for i, kind in enumerate(ops):
            if kind in ("delete", "replace"):
                ctxs.append({"victim": file_of_row(summarize(e), 1)})
            else:
                ctxs.append({})
        sc = Sched(sp, K=K, world=w)

        def pts(label, info):
            if dirsync_points:
                # the two writers may also interleave around every DIRECTORY sync of the manifest directory and every rename into it:
                # a rename is durable only through a directory fsync issued AFTER it
                p = info.get("path") or ""
                ofd = e.fos.fds.get(info.get("fd")) if "fd" in info else None
                if label in ("fsync", "close") and ofd is not None and ofd.isdir and "manifests" in (ofd.path or ""):
                    return True
                if label == "replace" and "metadata/manifests" in p:
                    return True
                return is_hint(info) and label in ("replace", "rename") or label in ("flock", "rlock", "sleep")
            return protocol_points(label, info) or (label in ("write", "open") and "inflight" in (info.get("path") or ""))
        w.yield_filter = pts
        for i, kind in enumerate(ops):
            sc.spawn(i, lambda i=i, kind=kind: outcome(lambda: run_op(e, handles[i], kind, ctxs[i])))
        w.sched = sc
        try:
            sc.run()
        finally:
            w.sched = None
        for tid, err in sc.errors.items():
            raise AssertionError(f"actor {tid} crashed in harness: {err!r}")
        sp.note("schedule", sc.trace_str())
        sp.reach("ran")
        sp.require(not problems, f"flip-instant {'+'.join(ops)}: at a pointer advance some reachable file was not durable: "
                   f"{problems[0][1][:3] if problems else ''} (schedule {sc.trace_str()})", {"sig": f"flip:{'+'.join(ops)}:not-durable"})


def obligations(tier):
    obs = []
    T = 300 if tier == "quick" else 1200
    ops = ["create", "append", "append2", "delete", "replace", "expire", "delsnap_cur", "delsnap_old"]
    for op in ops:
        ns = [min_prior(op)] if tier == "quick" else sorted({min_prior(op), min(2, min_prior(op) + 1)})
        if op == "create":
            ns = [0]
        for n in ns:
            obs.append(Ob(f"powerloss.{op}.n{n}", "vf.props.c16:powerloss", {"op": op, "n_prior": n, "_must_reach": ["after-op"], "_sample_every": 40},
                          timeout=T, bounds=f"operation {op}, {n} prior snapshots, power loss before every FakeOS call of the operation and after it returned",
                          weight=4))
    for op in (["append", "delete"] if tier == "quick" else ["append", "append2", "delete", "replace", "expire", "delsnap_cur", "create"]):
        obs.append(Ob(f"fsyncfault.{op}", "vf.props.c16:fsync_fault", {"op": op, "n_prior": min_prior(op) if op != "create" else 0, "_must_reach": ["ran"]}, timeout=T,
                      bounds=f"operation {op}: each file fsync (symbolic index) fails with EIO, then power loss after the call returned", weight=3))
    obs.append(Ob("flip.dirsync.append+append.K3", "vf.props.c16:flip_instant", {"ops": ["append", "append"], "K": 3, "dirsync_points": True, "_must_reach": ["ran"]},
                  timeout=T, bounds="two writers on separate handles, K=3, pre-emption around every directory fsync of / rename into metadata/manifests; "
                                    "durability asserted at every pointer rename", weight=6))
    for op in (["append"] if tier == "quick" else ["append", "delete", "expire", "create"]):
        obs.append(Ob(f"fsyncfault.dir.{op}", "vf.props.c16:fsync_fault", {"op": op, "n_prior": min_prior(op) if op != "create" else 0, "dirs": True, "_must_reach": ["ran"]},
                      timeout=T, bounds=f"operation {op}: each DIRECTORY fsync (symbolic index) fails with EIO; the pointer must never name files the error handling removed",
                      weight=3))
    pairs = [("append", "append")] if tier == "quick" else [("append", "append"), ("append", "delete"), ("append2", "expire"), ("replace", "append")]
    for pr in pairs:
        K = 2 if tier == "quick" else 3
        obs.append(Ob(f"flip.{'+'.join(pr)}.K{K}", "vf.props.c16:flip_instant", {"ops": list(pr), "K": K, "_must_reach": ["ran"]}, timeout=T,
                      bounds=f"two writers {pr} (one shared storage object = one Table handle for writer 0; separate handle for writer 1), K={K}; "
                             f"durability asserted at every pointer rename", weight=6))
    obs.append(Ob("witness.powerloss.append.no-datafile-fsync", "vf.props.c16:powerloss", {"op": "append", "n_prior": 1, "drop_fsync": ".parquet"},
                  timeout=T, expect="violation", bounds="must-fail twin: fsync of the parquet temp file ignored by the model", weight=2))
    obs.append(Ob("witness.powerloss.append.no-manifest-fsync", "vf.props.c16:powerloss", {"op": "append", "n_prior": 1, "drop_fsync": ".avro"},
                  timeout=T, expect="violation", bounds="must-fail twin: fsync of manifest files ignored by the model", weight=2))
    obs.append(Ob("flip.shared.append+append.K2", "vf.props.c16:flip_shared", {"K": 2}, timeout=T,
                  bounds="two threads sharing ONE Table handle (one storage object), K=2", weight=6))
    return obs


def flip_shared(sp, K=2):
    with Env(sp, rig="L", clock="tick") as e:
        w = e.world
        t0 = e.table(schema=SCH)
        t0.append_records([{"a": 1}])
        root = e.fos._resolve(e.root)[0]
        problems = []

        def hook(fos, src, dst):
            if dst.endswith(HINT):
                with w.inspect():
                    pr = durability_problems(fos, root, fos._lookup(dst).data, e.symjson.loads)
                if pr:
                    problems.append((w.step, pr))

        e.fos.after_rename.append(hook)
        sc = Sched(sp, K=K, world=w)

        def pts(label, info):
            return protocol_points(label, info) or (label in ("write", "open", "fsync") and "inflight" in (info.get("path") or ""))
        w.yield_filter = pts
        for i in range(2):
            sc.spawn(i, lambda i=i: outcome(lambda: t0.append_records([{"a": 10 + i}])))
        w.sched = sc
        try:
            sc.run()
        finally:
            w.sched = None
        for tid, err in sc.errors.items():
            raise AssertionError(f"actor {tid} crashed in harness: {err!r}")
        sp.note("schedule", sc.trace_str())
        sp.require(not problems, f"flip-instant shared handle: at a pointer advance some reachable file was not durable: "
                   f"{problems[0][1][:3] if problems else ''} (schedule {sc.trace_str()})", {"sig": "flip:shared:not-durable"})
