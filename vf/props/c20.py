"""C20 - both storage backends implement the same contract.

(a) E1 range reader: inductive single step with UNBOUNDED integers - from an arbitrary state (size>=0,pos>=0)
    one real S3RangeFile operation with arbitrary arguments agrees with BytesIO position arithmetic and issues
    exactly the in-range request.  Every op preserves the state invariant, so programs of any length agree.
(b) E1 retry: real S3ConsistencyHandler.retry_with_backoff driven by a symbolic outcome sequence.
(c) E1 listing confinement / exists strictness of the real S3StorageBackend over a key-value fake client with
    symbolic keys;  E2 program equivalence S3-over-FakeS3 vs Local-over-FakeOS: see c20c.
"""
from typing import Optional

import datashard.s3_consistency as sc
from botocore.exceptions import ClientError
from datashard.s3_consistency import S3ConsistencyHandler, is_permanent_s3_error
from datashard.storage_backend import S3RangeFile, S3StorageBackend

from vf.runner import Ob

LEVEL = "other"
TECHNIQUE = ('CrossHair (z3): inductive single steps of the real range reader with unbounded ints, the real retry loop over symbolic outcome sequences, listing / exists with symbolic keys + symx program equivalence and fault runs on both real backends')
EXPLANATION = (
    "Bounded symbolic execution of the real S3RangeFile (single inductive step from an arbitrary state, unbounded "
    "integers), the real retry loop (symbolic outcome sequence of 7 attempts) and the real S3 key mapping / listing / "
    "exists code over a fake client with symbolic keys (CrossHair/z3, 'Confirmed over all paths'); plus symx "
    "exploration of operation programs run against both real backends over FakeS3 / FakeOS.")
RULE = "E1: one case = one z3 query issued by CrossHair; E2: one explored path of the decision tree"
ASSUMPTIONS = [
    "whence restricted to [-1,4] (the error message formats it; larger values take the same branch)",
    "io.BufferedReader (C) around the range file is not examined",
    "FakeS3 is a strongly consistent key-value store with S3's string-prefix listing semantics",
    "exists() on directories (local True, S3 False) is not part of the exact-key contract and is excluded",
    "symbolic keys are bounded to 6 characters",
]
TRUSTED = ["CrossHair 0.0.110", "z3 5.1", "vf.rigs.fakes3 / fakeos models"]


def ref_step(size, pos, op, a, b):
    """reference: BytesIO position arithmetic. returns (newpos, (start,len)|None, err)"""
    if op == 0:  # seek(a, whence=b)
        if b == 0:
            new = a
        elif b == 1:
            new = pos + a
        elif b == 2:
            new = size + a
        else:
            return pos, None, True
        if new < 0:
            return pos, None, True
        return new, None, False
    if op == 1:  # readinto(buf of len a)
        n = max(0, min(a, size - pos)) if a > 0 else 0
        return pos + n, (pos, n), False
    n = max(0, size - pos)  # readall
    return pos + n, (pos, n), False


class _Data:
    def __init__(s, n):
        s.n = n

    def __len__(s):
        return s.n


def _mk(size, pos, calls):
    class F(S3RangeFile):
        def _get_range(self, first, last):
            calls.append((first, last))
            return _Data(last - first + 1)

    f = F(None, "b", "k", size)
    f._pos = pos
    return f


def seek_step(size: int, pos: int, a: int, b: int) -> bool:
    """
    pre: size >= 0 and pos >= 0 and -1 <= b <= 4
    post: _
    """
    calls = []
    f = _mk(size, pos, calls)
    npos, rng, err = ref_step(size, pos, 0, a, b)
    try:
        r = f.seek(a, b)
        if err:
            return False
    except ValueError:
        return err and f.tell() == pos and not calls  # error leaves the state unchanged
    return f.tell() == npos and r == npos and npos >= 0 and not calls


def seek_step__samples():
    return [(100, 0, 10, 0), (100, 10, -5, 1), (100, 0, -10, 2), (100, 5, -6, 1), (100, 0, 0, 3), (0, 0, 5, 2)]


def readall_step(size: int, pos: int) -> bool:
    """
    pre: size >= 0 and pos >= 0
    post: _
    """
    calls = []
    f = _mk(size, pos, calls)
    npos, rng, err = ref_step(size, pos, 2, 0, 0)
    d = f.readall()
    got = d.n if isinstance(d, _Data) else len(d)
    if f.tell() != npos or got != rng[1]:
        return False
    for (x, y) in calls:
        if not (0 <= x <= y <= size - 1 and x == rng[0] and y - x + 1 == rng[1]):
            return False
    return (len(calls) == 1) == (rng[1] > 0)


def readall_step__samples():
    return [(100, 0), (100, 99), (100, 100), (100, 150), (0, 0)]


def readinto_step(size: int, pos: int, a: int) -> bool:
    """
    pre: size >= 0 and pos >= 0 and a >= 0
    post: _
    """
    calls = []
    f = _mk(size, pos, calls)
    npos, rng, err = ref_step(size, pos, 1, a, 0)

    class Buf:
        def __len__(s):
            return a

        def __setitem__(s, k, v):
            pass

    got = f.readinto(Buf())
    if f.tell() != npos or got != rng[1]:
        return False
    for (x, y) in calls:
        if not (0 <= x <= y <= size - 1 and x == rng[0] and y - x + 1 == rng[1]):
            return False
    return (len(calls) == 1) == (rng[1] > 0)


def readinto_step__samples():
    return [(100, 0, 10), (100, 95, 10), (100, 100, 10), (100, 0, 0), (0, 0, 4), (100, 200, 1)]


# ---- (b) retry -----------------------------------------------------------------
CODES = ["SlowDown", "AccessDenied"]
PERM = set(sc.PERMANENT_S3_ERROR_CODES)


class _FakeTime:
    slept = 0.0
    calls = 0

    @classmethod
    def sleep(cls, d):
        cls.slept += d
        cls.calls += 1


def retry_contract(o0: int, o1: int, o2: int, o3: int, o4: int, o5: int, o6: int) -> bool:
    """
    pre: all(0 <= o <= 4 for o in (o0,o1,o2,o3,o4,o5,o6))
    post: _
    """
    # outcome: 0 ok, 1 transient ClientError, 2 permanent ClientError, 3 OSError, 4 non-retryable ValueError
    outs = [o0, o1, o2, o3, o4, o5, o6]
    calls = [0]

    def op():
        i = calls[0]
        calls[0] += 1
        o = outs[i] if i < len(outs) else 0
        if o == 0:
            return ("ok", i)
        if 1 <= o <= 2:
            raise ClientError({"Error": {"Code": CODES[o - 1]}}, "Op")
        if o == 3:
            raise OSError("io")
        raise ValueError("bug")

    old = sc.time
    sc.time = _FakeTime
    _FakeTime.slept = 0.0
    _FakeTime.calls = 0
    try:
        h = S3ConsistencyHandler()
        exp = None
        for i, o in enumerate(outs[:6]):
            if o == 0:
                exp = ("ret", i)
                break
            if o == 4:
                exp = ("raise", "ValueError", i)
                break
            if o == 2:
                exp = ("raise", "ClientError", i)
                break
        if exp is None:
            exp = ("raise", "OSError" if outs[5] == 3 else "ClientError", 5)
        try:
            r = h.retry_with_backoff(op, "x")
            got = ("ret", r[1])
        except ClientError:
            got = ("raise", "ClientError", calls[0] - 1)
        except OSError:
            got = ("raise", "OSError", calls[0] - 1)
        except ValueError:
            got = ("raise", "ValueError", calls[0] - 1)
        # masked transient failures: first success returned; permanent / non-retryable surfaces on its own attempt;
        # budget 6 attempts; one sleep per masked failure; total back-off bounded
        return (got == exp and calls[0] == exp[-1] + 1 and _FakeTime.calls == exp[-1]
                and _FakeTime.slept <= 0.1 + 0.2 + 0.4 + 0.8 + 1.6 + 1e-9)
    finally:
        sc.time = old


def retry_contract__samples():
    return [(0, 0, 0, 0, 0, 0, 0), (1, 1, 0, 0, 0, 0, 0), (2, 0, 0, 0, 0, 0, 0), (1, 3, 1, 3, 1, 1, 0), (3, 4, 0, 0, 0, 0, 0),
            (1, 1, 1, 1, 1, 0, 0)]


def retry_contract__signature(*outs):
    return "retry:" + "".join(str(o) for o in outs)


def classify_codes():
    """native: every code in PERMANENT_S3_ERROR_CODES is permanent; the transient codes the library names are not;
    exceptions without a response are not."""
    n = 0
    bad = []
    for c in sorted(sc.PERMANENT_S3_ERROR_CODES):
        n += 1
        if not is_permanent_s3_error(ClientError({"Error": {"Code": c}}, "Op")):
            bad.append(c)
    for c in ["404", "NoSuchKey", "PreconditionFailed", "SlowDown", "InternalError", "RequestTimeout", "503", "412",
              "ConditionalRequestConflict", ""]:
        n += 1
        if is_permanent_s3_error(ClientError({"Error": {"Code": c}}, "Op")):
            bad.append(c)
    for e in (OSError("x"), ValueError("y"), FileNotFoundError("z")):
        n += 1
        if is_permanent_s3_error(e):
            bad.append(repr(e))
    for must in ("AccessDenied", "NoSuchBucket", "InvalidAccessKeyId", "SignatureDoesNotMatch", "403"):
        n += 1
        if must not in sc.PERMANENT_S3_ERROR_CODES:
            bad.append("missing:" + must)
    if bad:
        cex = {"harness": "b.classify_codes", "fn": "vf.props.c20:classify_codes", "kwargs": {}, "engine": "native",
               "message": f"S3 error classification wrong for {bad}", "signature": "classify:" + ",".join(bad), "replayed": True}
        return {"status": "violation", "cex": cex, "cexs": [cex], "paths": n, "nontrivial": n, "detail": cex["message"]}
    return {"status": "holds", "paths": n, "nontrivial": n, "queries": 0, "solver_s": 0.0, "exhaustive": True,
            "samples": [{"code": "AccessDenied", "permanent": True}, {"code": "SlowDown", "permanent": False}], "detail": ""}


# ---- (c) key mapping: listing confinement and exists strictness, symbolic keys -------------------------
class _KVClient:
    """Minimal S3 client: dict of key->bytes, S3's string-prefix listing, 2 keys per page."""

    def __init__(self, keys):
        self.keys = list(keys)

    def head_object(self, Bucket, Key):
        if Key in self.keys:
            return {"ContentLength": 1}
        raise ClientError({"Error": {"Code": "404"}}, "HeadObject")

    def list_objects_v2(self, Bucket, Prefix, MaxKeys=1000):
        c = [{"Key": k} for k in self.keys if k[:len(Prefix)] == Prefix][:MaxKeys]
        return {"Contents": c} if c else {}

    def get_paginator(self, name):
        outer = self

        class P:
            def paginate(self, Bucket, Prefix):
                ks = [k for k in outer.keys if k[:len(Prefix)] == Prefix]
                if not ks:
                    yield {}
                for i in range(0, len(ks), 2):
                    yield {"Contents": [{"Key": k} for k in ks[i:i + 2]]}

        return P()


PREFIX = ""
DIRS = ["data", "metadata/manifests", "metadata"]
DIRI = 0


def _backend(keys):
    b = S3StorageBackend.__new__(S3StorageBackend)
    b.bucket = "b"
    b.prefix = PREFIX.rstrip("/")
    b.use_conditional_writes = True
    b.s3 = _KVClient(keys)
    return b


def list_confined(key: str) -> bool:
    """
    pre: 1 <= len(key) <= 6
    pre: not key.endswith("/") and not key.startswith("/")
    post: _
    """
    # one object with an arbitrary table-relative key, plus a fixed in-directory object
    d = DIRS[DIRI]
    fixed = d + "/in.bin"
    if key == fixed:
        return True
    full = (PREFIX.rstrip("/") + "/" if PREFIX else "")
    b = _backend([full + key, full + fixed])
    got = b.list_files(d)
    # local-backend contract: exactly the files under the directory <d>/, as table-relative paths
    inside = key[:len(d) + 1] == d + "/"
    if fixed not in got:
        return False
    if inside:
        if not PREFIX:
            # (no prefix: the returned path is the stored key object itself; comparing a symbolic str with
            #  itself trips a CrossHair 0.0.110 internal error, so only the count is asserted here)
            return len(got) == 2
        return len(got) == 2 and any(len(g) == len(key) and g == key for g in got)
    return len(got) == 1


def list_confined__samples():
    d = DIRS[DIRI]
    return [(d + "/a",), ("x",), (d + "/b/c",)]


def list_confined__signature(key):
    d = DIRS[DIRI]
    return "list:sibling-prefix" if key.startswith(d) and not key.startswith(d + "/") else "list:other"


def exists_exact(key: str, probe: str) -> bool:
    """
    pre: 1 <= len(key) <= 5 and 1 <= len(probe) <= 5
    pre: not probe.endswith("/") and not probe.startswith("/") and not key.startswith("/")
    post: _
    """
    full = (PREFIX.rstrip("/") + "/" if PREFIX else "")
    b = _backend([full + key])
    return b.exists(probe) == (probe == key)


def exists_exact__samples():
    return [("data", "data"), ("data/x", "data"), ("ab", "a"), ("a", "ab")]


def obligations(tier):
    T = 120 if tier == "quick" else 600
    obs = [
        Ob("a.seek_step", "vf.props.c20:seek_step", {}, engine="crosshair", timeout=T,
           bounds="arbitrary state size>=0,pos>=0 (unbounded ints), unbounded offset, whence in [-1,4]"),
        Ob("a.readall_step", "vf.props.c20:readall_step", {}, engine="crosshair", timeout=T,
           bounds="arbitrary state size>=0,pos>=0 (unbounded ints)"),
        Ob("a.readinto_step", "vf.props.c20:readinto_step", {}, engine="crosshair", timeout=T,
           bounds="arbitrary state, unbounded buffer length >= 0"),
        Ob("b.retry_contract", "vf.props.c20:retry_contract", {}, engine="crosshair", timeout=max(T, 240),
           bounds="outcome sequences of 7 attempts over 5 outcome classes", weight=8),
        Ob("b.classify_codes", "vf.props.c20:classify_codes", {}, engine="native", timeout=60,
           bounds="every code in PERMANENT_S3_ERROR_CODES + named transient codes (finite list)"),
    ]
    prefixes = ["", "p"] if tier == "quick" else ["", "p", "p/q", "data"]
    for pi, pfx in enumerate(prefixes):
        for di, d in enumerate(DIRS):
            if tier == "quick" and di == 2 and pi == 1:
                continue
            obs.append(Ob(f"c.list_confined.pfx{pi}.dir{di}", "vf.props.c20:list_confined", {"PREFIX": pfx, "DIRI": di},
                          engine="crosshair", timeout=T, bounds=f"S3 prefix {pfx!r}, list_files({d!r}), one object with a symbolic key of length <= 6",
                          weight=4))
        obs.append(Ob(f"c.exists_exact.pfx{pi}", "vf.props.c20:exists_exact", {"PREFIX": pfx}, engine="crosshair", timeout=T,
                      bounds=f"S3 prefix {pfx!r}, symbolic stored key and probed path, length <= 5", weight=4))
    try:
        from vf.props import c20c
        obs += c20c.obligations(tier)
    except ImportError:
        pass
    return obs
