"""C18 - creating a table is idempotent and race-safe.

E2 (symx) + baton threads on Rig L (flock) and Rig S (real CAS lock, create-if-absent pointer write): 2-3 actors
from {create_table(schema S_i), load_table, first append (with / without schema)} over initial states {absent,
healthy with data, pointer lost, metadata written but pointer missing}.  Solver variables: the schedule."""
import datashard
from datashard.data_structures import Schema

from vf.oracles import reader
from vf.props.common import HINT, SCH, is_hint, is_lock, outcome
from vf.rigs.env import Env
from vf.runner import Ob
from vf.sched import Sched

LEVEL = "other"
TECHNIQUE = ('symx: symbolic schedules of concurrent real create / open / first-append from each initial state + symbolic interruption index of a creation; concrete replay')
EXPLANATION = (
    "Bounded symbolic execution (symx/z3) of concurrent real create / open / first-append calls under a baton "
    "scheduler (all interleavings at shared-object granularity within the pre-emption bound) from each initial "
    "state; the single-identity, schema and data assertions are discharged per path, tree exhausted.")
RULE = "one case = one explored schedule; non-trivial = z3 decided a scheduling choice"
ASSUMPTIONS = [
    "pre-emption bound K; scheduling points at pointer, lock, metadata-directory listing operations and sleeps",
    "FakeOS flock / FakeS3 conditional-write semantics; uuid4 values distinct",
]
TRUSTED = ["z3 5.1", "vf.symx", "rigs"]

S_A = SCH
S_B = Schema(schema_id=2, fields=[{"id": 1, "name": "a", "type": "long", "required": True},
                                  {"id": 2, "name": "b", "type": "string", "required": False}])


def create_points(label, info):
    p = info.get("path") or info.get("key") or ""
    if is_hint(info) or is_lock(info) or label in ("flock", "sleep", "rlock"):
        return True
    if label in ("walk", "list>", "listdir") and "metadata" in p:
        return True
    if label in ("replace", "rename", "put<") and "/metadata/v" in "/" + p:
        return True
    return False


def uuids_pointed(e):
    out = []
    with e.world.inspect():
        files = e.files()
    for st, a, body in e.pointer_history():
        if body is None:
            continue
        name = reader.read_pointer({HINT: body})
        if name and ("metadata/" + name) in files:
            try:
                out.append(reader.read_metadata(files, name, loads=e.symjson.loads)["table_uuid"])
            except reader.Unreadable:
                out.append("?")
    return out


def race(sp, rig="L", state="absent", actors=("create_A", "create_B_append"), K=2, pause_max_ms=0):
    with Env(sp, rig=rig, clock="tick") as e:
        w = e.world
        path = e.root
        pre_uuid = pre_rows = None
        pre_schema = None
        if state in ("healthy", "pointer_lost"):
            t0 = e.table(schema=S_A)
            t0.append_records([{"a": 1}])
            t0.append_records([{"a": 2}])
            pre_uuid = t0.metadata_manager.refresh().table_uuid
            pre_rows = [1, 2]
            pre_schema = "A"
            if state == "pointer_lost":
                with w.inspect():
                    t0.storage.delete_file(HINT)
        elif state == "half_created":
            # creation interrupted: v0 metadata written, pointer never written
            t0 = e.table(schema=S_A)
            pre_uuid = t0.metadata_manager.refresh().table_uuid
            pre_rows = []
            pre_schema = "A"
            with w.inspect():
                t0.storage.delete_file(HINT)
        n_before = len(e.pointer_history())
        handles = {}

        def act(i, kind):
            def fn():
                if kind == "create_A":
                    handles[i] = datashard.create_table(path, schema=S_A)
                elif kind == "create_B":
                    handles[i] = datashard.create_table(path, schema=S_B)
                elif kind == "create_B_append":
                    handles[i] = datashard.create_table(path, schema=S_B)
                    handles[i].append_records([{"a": 10 + i}])
                elif kind == "create_noschema":
                    handles[i] = datashard.create_table(path)
                elif kind == "load":
                    handles[i] = datashard.load_table(path)
                elif kind == "append_noschema":
                    handles[i] = e.table()
                    handles[i].append_records([{"a": 10 + i}])
                elif kind == "append_A":
                    handles[i] = e.table()
                    handles[i].append_records([{"a": 10 + i}], schema=S_A)
                else:
                    raise ValueError(kind)
                return kind
            return fn

        sc = Sched(sp, K=K, world=w, pause_max_ms=pause_max_ms)
        w.yield_filter = create_points
        for i, kind in enumerate(actors):
            sc.spawn(i, lambda f=act(i, kind): outcome(f))
        w.sched = sc
        try:
            sc.run()
        finally:
            w.sched = None
        for tid, err in sc.errors.items():
            raise AssertionError(f"actor {tid} crashed in harness: {err!r}")
        trace = sc.trace_str()
        res = sc.results
        tag = f"{rig}:{state}:{'+'.join(actors)}"
        sp.note("schedule", trace)
        sp.note("outcomes", {i: (res[i][0], type(res[i][1]).__name__) for i in res})
        sp.reach("ran")
        # outcomes: creators and schema-carrying appends never fail; load may fail only with 'no table'; a schema-less
        # append may fail only with 'no schema available'
        for i, kind in enumerate(actors):
            o = res[i]
            if kind == "load":
                ok = o[0] == "ok" or (state == "absent" and isinstance(o[1], ValueError))
            elif kind == "append_noschema":
                ok = o[0] == "ok" or isinstance(o[1], ValueError)
            else:
                ok = o[0] == "ok"
            if pause_max_ms and isinstance(o[1], TimeoutError):
                ok = True  # the other creator was paused while holding the lock for longer than the acquisition timeout: a legitimate failure
            sp.require(ok, f"{tag}: actor {i} ({kind}) failed with {o[1]!r} (schedule {trace})", {"sig": f"{tag}:{kind}:failed:{type(o[1]).__name__}"})
        # exactly one initialisation takes effect
        ptr = uuids_pointed(e)
        seen = set(ptr[n_before:]) | ({pre_uuid} if pre_uuid else set())
        sp.require(len(seen) <= 1 and "?" not in seen, f"{tag}: the version pointer named {len(seen)} different table identities over time "
                   f"(schedule {trace})", {"sig": f"{tag}:multiple-identities"})
        with w.inspect():
            files = e.files()
        name, md = reader.current_metadata(files, loads=e.symjson.loads)
        if state == "half_created" and md is None:
            # nobody needed to write the pointer: resolve like the library does
            md = None
        final_uuid = md["table_uuid"] if md else None
        if pre_uuid is not None and md is not None:
            sp.require(final_uuid == pre_uuid, f"{tag}: the existing table's identity was replaced (schedule {trace})", {"sig": f"{tag}:identity-replaced"})
        # every caller ends on the same table
        for i, h in handles.items():
            if res[i][0] != "ok":
                continue
            m = h.metadata_manager.refresh()
            sp.require(m is not None and (final_uuid is None or m.table_uuid == final_uuid) and (pre_uuid is None or m.table_uuid == pre_uuid),
                       f"{tag}: actor {i} ended on a different table than the one the pointer names (schedule {trace})", {"sig": f"{tag}:caller-on-other-table"})
        # schema + data
        if md is not None:
            fields = None
            for s in md["schemas"]:
                if s["schema_id"] == md["current_schema_id"]:
                    fields = [f["name"] for f in s["fields"]]
            if pre_schema == "A":
                sp.require(fields == ["a"], f"{tag}: the existing table's schema was replaced: {fields} (schedule {trace})", {"sig": f"{tag}:schema-replaced"})
            rows = reader.current_rows(files, "a", loads=e.symjson.loads)
            exp = sorted((pre_rows or []) + [10 + i for i, k in enumerate(actors) if k in ("create_B_append", "append_noschema", "append_A") and res[i][0] == "ok"])
            sp.require(rows == exp, f"{tag}: rows {rows}, expected {exp} (outcomes {[res[i][0] for i in sorted(res)]}, schedule {trace})", {"sig": f"{tag}:rows"})
            # schema-less appends use the PERSISTED schema - whatever schema the appending handle was constructed with: every data file of
            # the current snapshot carries exactly the persisted columns
            if fields:
                cur = [x for x in md["snapshots"] if x["snapshot_id"] == md.get("current_snapshot_id")]
                for pth, _ent in (reader.snapshot_files(files, cur[0]) if cur else []):
                    cols = reader.pq.read_table(reader.io.BytesIO(files[pth])).column_names
                    sp.require(list(cols) == list(fields), f"{tag}: data file {pth.rsplit('/', 1)[-1][:20]} was written with columns {list(cols)} but the "
                               f"table's persisted schema is {fields} (schedule {trace})", {"sig": f"{tag}:data-file-with-foreign-schema"})
            creators_with_schema = [k for k in actors if k.startswith("create_") and k != "create_noschema"]
            # (an opener that auto-creates - Table(path) without schema, as the append actors do - is itself a schema-less creator)
            if pre_uuid is None and creators_with_schema and all(k.startswith("create_") and k != "create_noschema" or k == "load" for k in actors):
                sp.require(fields in (["a"], ["a", "b"]), f"{tag}: no supplied schema was persisted: {fields}", {"sig": f"{tag}:schema-not-persisted"})
            for i, kind in enumerate(actors):
                if kind == "append_noschema" and res[i][0] != "ok":
                    sp.require(not fields, f"{tag}: schema-less append failed although the table has a persisted schema {fields} (schedule {trace})",
                               {"sig": f"{tag}:append-noschema-failed-with-schema"})
                if kind == "append_noschema" and res[i][0] == "ok":
                    sp.require(bool(fields), f"{tag}: an append without any available schema was accepted", {"sig": f"{tag}:append-without-schema-accepted"})


def interrupted(sp, rig="S", kind="post"):
    """Creation interrupted at a solver-chosen step (ambiguous S3 error after the server acted / clean error /
    process death), then sequentially: another create, a schema-less append, a load - all must end on ONE working
    table whose persisted schema is one that was supplied."""
    from vf.rigs.fakes3 import cerr
    from vf.rigs.world import Killed, crash_at, fault_at
    import errno
    with Env(sp, rig=rig, clock="tick") as e:
        w = e.world
        path = e.root
        k = sp.fresh_int("interrupt_at", 0, 200)
        if kind == "crash":
            st = crash_at(w, w.step + 1 + k, who="c1")
        else:
            def mk(label, info):
                if rig == "L":
                    return OSError(errno.EIO, "injected")
                return cerr("RequestTimeout" if kind == "post" else "AccessDenied", "Op", 500)
            st = fault_at(w, w.step + 1 + k, mk, when=lambda l, i: l.endswith("<") == (kind == "post"))
        first = None
        with e.as_actor("c1"):
            try:
                datashard.create_table(path, schema=S_A)
                first = "ok"
            except Killed:
                first = "killed"
            except Exception as ex:  # noqa
                first = type(ex).__name__
        w.callbacks.clear()
        if e.fos is not None:
            e.fos.kill_process("c1")
        if rig == "S":
            w.clock.advance(61_000)
        where = f"{st['label']} {(st['info'] or {}).get('key') or (st['info'] or {}).get('path') or ''}" if st.get("fired") and st.get("label") else (
            f"{w.trace[-1][2]} {w.trace[-1][3]}" if st.get("fired") and w.trace else "no interruption")
        tag = f"{rig}:interrupted:{kind}"
        sp.note("interrupted_at", where)
        sp.note("first", first)
        sp.reach("ran")
        try:
            t2 = datashard.create_table(path, schema=S_B)
            t3 = e.table()
            t3.append_records([{"a": 7}])
            t4 = datashard.load_table(path)
            rows = sorted(r["a"] for r in t4.scan())
        except Exception as ex:  # noqa
            sp.require(False, f"{tag}: creation interrupted at '{where}' (first creator: {first}); afterwards create/append/load fails: "
                       f"{type(ex).__name__}: {ex}", {"sig": f"{tag}:table-unusable:{type(ex).__name__}"})
            return
        u = {h.metadata_manager.refresh().table_uuid for h in (t2, t3, t4)}
        sp.require(len(u) == 1 and rows == [7], f"{tag}: callers ended on {len(u)} identities, rows {rows}", {"sig": f"{tag}:identities"})
        ptr = set(uuids_pointed(e))
        sp.require(len(ptr) <= 1 and "?" not in ptr, f"{tag}: the pointer named {len(ptr)} identities over time (interrupted at '{where}')",
                   {"sig": f"{tag}:multiple-identities"})
        sch = t4._get_current_schema()
        sp.require(sch is not None and [f["name"] for f in sch.fields] in (["a"], ["a", "b"]), f"{tag}: no supplied schema persisted", {"sig": f"{tag}:schema"})


def obligations(tier):
    obs = []
    T = 300 if tier == "quick" else 1500
    for rig, kind in (("S", "post"), ("S", "pre"), ("S", "crash"), ("L", "pre"), ("L", "crash")):
        obs.append(Ob(f"interrupted.{rig}.{kind}", "vf.props.c18:interrupted", {"rig": rig, "kind": kind, "_must_reach": ["ran"]}, timeout=T,
                      bounds=f"rig {rig}: create_table interrupted at every step by {kind}, then create + schema-less append + load", weight=3))
    K = 2 if tier == "quick" else 3
    cfgs = [("absent", ("create_A", "create_B_append")), ("absent", ("create_A", "load")), ("absent", ("create_noschema", "append_noschema")),
            ("healthy", ("create_B", "append_noschema")), ("pointer_lost", ("create_B", "create_A")), ("pointer_lost", ("load", "append_noschema")),
            ("half_created", ("create_A", "create_B")), ("absent", ("create_A", "append_A"))]
    for rig in ("L", "S"):
        for state, actors in cfgs:
            if tier == "quick" and rig == "S" and state in ("pointer_lost",) and actors[0] == "load":
                continue
            obs.append(Ob(f"race.{rig}.{state}.{'+'.join(actors)}.K{K}", "vf.props.c18:race",
                          {"rig": rig, "state": state, "actors": list(actors), "K": K, "_must_reach": ["ran"]}, timeout=T,
                          bounds=f"rig {rig}, initial state {state}, actors {actors}, K={K}", weight=K * 2))
    obs.append(Ob("race.S.absent.create_A+create_B_append.pauses.K2", "vf.props.c18:race",
                  {"rig": "S", "state": "absent", "actors": ["create_A", "create_B_append"], "K": 2, "pause_max_ms": 130000, "_must_reach": ["ran"]}, timeout=T,
                  bounds="rig S, absent, two creators, K=2, symbolic pause 0..130 s at every pre-emption (the 60 s lock lease can lapse mid-creation)", weight=6))
    if tier == "thorough":
        for rig in ("L", "S"):
            obs.append(Ob(f"race.{rig}.absent.3actors.K2", "vf.props.c18:race",
                          {"rig": rig, "state": "absent", "actors": ["create_A", "create_B_append", "load"], "K": 2}, timeout=T,
                          bounds=f"rig {rig}, absent, 3 actors, K=2", weight=9))
            obs.append(Ob(f"race.{rig}.absent.create+create.K4", "vf.props.c18:race",
                          {"rig": rig, "state": "absent", "actors": ["create_A", "create_B"], "K": 4}, timeout=T, bounds=f"rig {rig}, 2 creators, K=4", weight=9))
    return obs
