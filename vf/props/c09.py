"""C09 - retained snapshots are immutable and time travel is stable.

(a) E2 (symx) histories (real operations incl. manifest-rewriting deletes, expiry, snapshot deletion, collections and
    failed commits): after EVERY step the independent reader re-reads every retained snapshot and compares it with
    the content recorded at its commit; lookup by id / by timestamp is compared with the reference history.
(b) E1 (CrossHair) on SnapshotManager.get_snapshot_by_timestamp and _most_recent_snapshot_id with symbolic
    (commit-order non-decreasing, possibly equal) timestamps, symbolic query time and symbolic removed subset."""
from typing import List

from datashard.data_structures import HistoryEntry, Snapshot, TableMetadata
from datashard.snapshot_manager import SnapshotManager

from vf.props import history as H
from vf.rigs.env import Env
from vf.runner import Ob

LEVEL = "other"
TECHNIQUE = ('symx over solver-chosen operation histories (re-reading every retained snapshot each step, symbolic timestamps incl. ties) + CrossHair (z3) on the timestamp-lookup / repointing kernels')
EXPLANATION = (
    "symx/z3 exploration of all operation histories up to the length bound with every retained snapshot re-read "
    "after every step (independent reader) and id/timestamp lookups compared with the reference history; "
    "CrossHair/z3 on the timestamp-lookup and current-repointing kernels with symbolic timestamps incl. ties.")
RULE = "E2: one case = one explored history; E1: one z3 query; non-trivial = the solver chose an operation / decided a timestamp comparison"
ASSUMPTIONS = [
    "histories up to the stated length on one table handle (plus fresh-handle re-reads by the independent reader)",
    "clocks do not run backwards between commits (equal timestamps allowed)",
    "E1: <= 4 snapshots, timestamps in [0, 6]",
]
TRUSTED = ["CrossHair 0.0.110", "z3 5.1", "vf.symx", "rigs"]

N = 4


class _MM:
    def __init__(self, md):
        self.md = md

    def get_all_snapshots(self):
        return self.md.snapshots


def by_timestamp(t0: int, d1: int, d2: int, d3: int, q: int, k0: bool, k1: bool, k2: bool, k3: bool) -> bool:
    """
    pre: 0 <= t0 <= 2 and 0 <= d1 <= 2 and 0 <= d2 <= 2 and 0 <= d3 <= 2 and -1 <= q <= 9
    post: _
    """
    ts = [t0, t0 + d1, t0 + d1 + d2, t0 + d1 + d2 + d3]  # commit order, non-decreasing, ties allowed
    keep = [k0, k1, k2, k3]
    snaps = [Snapshot(100 + i, ts[i], f"ml{i}") for i in range(N) if keep[i]]
    md = TableMetadata(location="x", table_uuid="u")
    md.snapshots = snaps
    got = SnapshotManager(_MM(md)).get_snapshot_by_timestamp(q)
    exp = None
    for s in snaps:  # commit order: the LAST one with ts <= q
        if s.timestamp_ms <= q:
            exp = s.snapshot_id
    return (got.snapshot_id if got is not None else None) == exp


def by_timestamp__samples():
    return [(0, 1, 1, 1, 2, True, True, True, True), (0, 0, 0, 0, 0, True, True, True, True), (1, 0, 2, 0, 1, True, False, True, True),
            (0, 1, 1, 1, -1, True, True, True, True)]


def most_recent(t0: int, d1: int, d2: int, d3: int, gone: int, k0: bool, k1: bool, k2: bool, k3: bool, logged: bool) -> bool:
    """
    pre: 0 <= t0 <= 2 and 0 <= d1 <= 2 and 0 <= d2 <= 2 and 0 <= d3 <= 2 and 0 <= gone <= 3
    post: _
    """
    # deleting the current snapshot repoints the table to its most recently COMMITTED survivor
    ts = [t0, t0 + d1, t0 + d1 + d2, t0 + d1 + d2 + d3]
    keep = [k0, k1, k2, k3]
    keep[gone] = False
    md = TableMetadata(location="x", table_uuid="u")
    md.snapshots = [Snapshot(100 + i, ts[i], f"ml{i}") for i in range(N) if keep[i]]
    md.snapshot_log = [HistoryEntry(ts[i], 100 + i) for i in range(N) if keep[i]] if logged else []
    got = SnapshotManager._most_recent_snapshot_id(md)
    surv = [100 + i for i in range(N) if keep[i]]
    if not surv:
        return got is None
    if logged:
        return got == surv[-1]
    # without a usable log the fallback is 'newest by timestamp': any survivor carrying the maximal timestamp
    mx = max(ts[i] for i in range(N) if keep[i])
    return got in [100 + i for i in range(N) if keep[i] and ts[i] == mx]


def most_recent__samples():
    return [(0, 1, 1, 1, 3, True, True, True, True, True), (0, 0, 0, 0, 3, True, True, True, True, True), (0, 1, 0, 1, 1, True, True, False, True, False)]


def immut_history(sp, rig="M", L=3, first=None, second=None, ops=None, clock="tick"):
    with Env(sp, rig=rig, clock=clock, clock_kw={"sites": {"sm"}, "maxd": 1, "budget": L + 3}) as e:
        ops = ops or ["append", "delete", "replace", "expire", "delsnap", "gc", "failed_commit", "reused_txn"]
        h = H.History(sp, e, ops, checks=[H.check_state, H.check_immutable])
        h.ops = ["append"]
        h.step(-2)
        h.ops = ["append2"]
        h.step(-1)
        h.ops = ops
        if first is not None:
            h.ops = [first]
            h.step(0)
            k0 = 1
            if second is not None:
                h.ops = [second]
                h.step(1)
                k0 = 2
            h.ops = ops
            for k in range(k0, L):
                h.step(k)
        else:
            h.run(L)
        sp.note("history", list(h.trail))
        sp.reach("ran")


def obligations(tier):
    obs = []
    T = 300 if tier == "quick" else 1200
    obs.append(Ob("b.by_timestamp", "vf.props.c09:by_timestamp", {}, engine="crosshair", timeout=T,
                  bounds="4 snapshots, commit-ordered symbolic timestamps (ties allowed), symbolic query time, symbolic retained subset", weight=6))
    obs.append(Ob("b.most_recent", "vf.props.c09:most_recent", {}, engine="crosshair", timeout=T,
                  bounds="4 snapshots, symbolic timestamps, symbolic deleted snapshot and retained subset, with / without snapshot log", weight=6))
    all_ops = ["append", "delete", "replace", "expire", "delsnap", "gc", "failed_commit", "reused_txn"]
    if tier == "quick":
        for f in all_ops:
            obs.append(Ob(f"a.history.L.{f}.L2", "vf.props.c09:immut_history", {"rig": "L", "L": 2, "first": f, "_must_reach": ["ran"], "_sample_every": 25},
                          timeout=T, bounds=f"rig L, append + 2-file append, then {f} + 1 solver-chosen operation", weight=4))
        obs.append(Ob("a.history.L.ties.L2", "vf.props.c09:immut_history",
                      {"rig": "L", "L": 2, "ops": ["append", "expire", "delsnap", "delete"], "clock": "sym", "_must_reach": ["ran"]}, timeout=T,
                      bounds="rig L, symbolic snapshot timestamps (equal milliseconds allowed), 2 operations from append/expire/delsnap/delete", weight=5))
        obs.append(Ob("a.history.S.L2", "vf.props.c09:immut_history", {"rig": "S", "L": 2, "ops": ["delete", "replace", "gc", "delsnap"], "_must_reach": ["ran"]},
                      timeout=T, bounds="rig S, 2 operations from delete/replace/gc/delsnap", weight=4))
    else:
        # sized from measured runs: below ONE first operation an L=3 sub-tree holds 4-10 k histories (10-20 min); L=4 is out of reach even
        # when partitioned by its first two operations (> 9 k histories per pair in 20 min) and is stated as outside the bound
        for f in all_ops:
            obs.append(Ob(f"a.history.L.{f}.L3", "vf.props.c09:immut_history", {"rig": "L", "L": 3, "first": f, "_sample_every": 100},
                          timeout=1500, bounds=f"rig L, append + 2-file append, then {f} + 2 solver-chosen operations", weight=8, allow_inconclusive=True))
            obs.append(Ob(f"a.history.S.{f}.L3", "vf.props.c09:immut_history", {"rig": "S", "L": 3, "first": f, "_sample_every": 50}, timeout=1500,
                          bounds=f"rig S, then {f} + 2 solver-chosen operations", weight=7))
        for f in ("append", "expire", "delsnap", "delete", "replace"):
            obs.append(Ob(f"a.history.L.ties.{f}.L3", "vf.props.c09:immut_history",
                          {"rig": "L", "L": 3, "first": f, "ops": ["append", "expire", "delsnap", "delete", "replace"], "clock": "sym"}, timeout=1500,
                          bounds=f"rig L, symbolic snapshot timestamps (ties), {f} + 2 operations", weight=9, allow_inconclusive=True))
    return obs
