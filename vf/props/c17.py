"""C17 - no operation escapes the table root.

E2 (symx) over the real LocalStorageBackend / DataFileManager / FileManager / Table / GarbageCollector code on FakeOS
with a SENTINEL tree next to the table root, symlinks inside the root pointing inside and outside, a sibling directory
sharing the root's name as a prefix, and the root reached directly or through a symlink.  The solver picks the path
(join of <= 4 components from the property's grammar) and the obligation fixes the entry point.  FakeOS logs every
content read / write / delete / rename / directory listing with its CANONICAL path.
Oracle: no logged access outside the canonical root; sentinel fingerprint unchanged; an escaping path (canonical
resolution outside the root) is rejected with the security ValueError - not with FileNotFoundError and not by
silently answering from some other file.
HONEST SCOPE: finite grammar - the solver is a case-splitter here.  FakeOS's realpath model is compared with the
real os.path.realpath on the same tree (built in a scratch directory) for the whole grammar on every run."""
import io
import itertools
import os
import shutil
import tempfile

import fastavro

from datashard.data_structures import DataFile, FileFormat

from vf.oracles import reader
from vf.props.common import SCH
from vf.rigs.env import Env
from vf.runner import Ob

LEVEL = "other"
TECHNIQUE = ('symx as case-splitter over the path grammar x entry points on FakeOS (realpath model validated against the OS each run); canonical access log + sentinel oracle')
EXPLANATION = (
    "symx/z3 exploration of the whole path grammar (<= 4 components incl. '..', '.', empty, absolute, doubled slashes, "
    "sibling-prefix names, symlinks pointing inside/outside) for every storage and read entry point, root reached "
    "directly or via a symlink; also with the path's components re-pointed to outside symlinks between two uses by one handle, "
    "and with the table's own lock file / directory planted as a dangling outside symlink; access log + sentinel fingerprint "
    "oracle; exhaustive within the grammar bound.")
RULE = "one case = one (path, entry point, root spelling) combination explored; non-trivial = the solver chose the path components"
ASSUMPTIONS = [
    "path depth <= 4 components from the listed alphabet; TOCTOU symlink swaps between check and use and Windows paths are outside the claim",
    "FakeOS path resolution (symlinks, '..', missing tails) is validated against the real os.path.realpath on the same tree every run",
    "stat-like probes (exists / size / mtime) of outside files are not 'content reads' and are not logged",
]
TRUSTED = ["z3 5.1", "vf.symx", "vf.rigs.fakeos path model (validated each run)"]

ROOT = "/wh/tbl"
COMPONENTS = ["..", ".", "", "data", "metadata", "x", "li", "lo", "lk", "secret.txt", "f.parquet"]
HEADS = ["", "/", "//", "/wh/tbl2/", "/outside/", "/wh/tbl/", "../tbl2/", "/wh/tbl/../tbl2/"]
ENTRY = ["read_file", "open_file", "open_seekable", "write_file", "exists", "list_files", "delete_file", "makedirs", "get_size",
         "get_modified_time", "create_lock", "open_parquet_source", "read_data_file", "validate_file_exists", "write_data_file"]


def build_tree(fos):
    """table root with inside/outside symlinks, a sibling-prefix directory, a sentinel tree"""
    fos.mkdir_durable("/wh/tbl/data")
    fos.mkdir_durable("/wh/tbl/metadata")
    fos.mkdir_durable("/wh/tbl2")
    fos.mkdir_durable("/outside/sub")
    fos.put_file("/outside/secret.txt", b"TOP-SECRET-OUTSIDE")
    fos.put_file("/outside/f.parquet", b"TOP-SECRET-PARQUET")
    fos.put_file("/outside/sub/secret.txt", b"TOP-SECRET-SUB")
    fos.put_file("/wh/tbl2/secret.txt", b"TOP-SECRET-SIBLING")
    fos.put_file("/wh/tbl2/f.parquet", b"TOP-SECRET-SIBLING-PQ")
    fos.put_file("/wh/secret.txt", b"TOP-SECRET-PARENT")
    fos.put_file("/wh/tbl/data/f.parquet", b"inside-data")
    fos.put_file("/wh/tbl/x", b"inside-x")
    fos.put_symlink("/wh/tbl/li", "data")
    fos.put_symlink("/wh/tbl/lo", "/outside")
    fos.put_symlink("/wh/tbl/data/lo", "../../tbl2")
    fos.put_symlink("/wh/tbl/lk", "/outside/planted.lock")   # dangling: names a file that does not exist (yet) outside the root
    fos.put_symlink("/lnk", "/wh/tbl")


def swap_out_symlinks(fos):
    """replace every symlink inside the root by a real directory / file with the same name (the state BEFORE an attacker or an
    operator re-points them); swap_in_symlinks restores the arrangement of build_tree."""
    for p in ("/wh/tbl/li", "/wh/tbl/lo", "/wh/tbl/data/lo", "/wh/tbl/lk"):
        fos.remove(p)
    for d in ("/wh/tbl/li", "/wh/tbl/lo", "/wh/tbl/data/lo"):
        fos.mkdir_durable(d)
        fos.put_file(d + "/secret.txt", b"inside-harmless")
        fos.put_file(d + "/f.parquet", b"inside-harmless")
        fos.put_file(d + "/x", b"inside-harmless")
    fos.put_file("/wh/tbl/lk", b"inside-harmless")


def swap_in_symlinks(fos):
    for d in ("/wh/tbl/li", "/wh/tbl/lo", "/wh/tbl/data/lo"):
        fos.rmtree(d, ignore_errors=True)
    if fos._lookup("/wh/tbl/lk", follow=False) is not None:
        fos.remove("/wh/tbl/lk")
    fos.put_symlink("/wh/tbl/li", "data")
    fos.put_symlink("/wh/tbl/lo", "/outside")
    fos.put_symlink("/wh/tbl/data/lo", "../../tbl2")
    fos.put_symlink("/wh/tbl/lk", "/outside/planted.lock")


def fingerprint(fos):
    out = {}
    for top in ("/outside", "/wh/tbl2"):
        for p, d in fos.files(top).items():
            out[p] = d
    ino = fos._lookup("/wh/secret.txt")
    out["/wh/secret.txt"] = ino.data if ino else None
    return out


def outside(canon, croot):
    return not (canon == croot or canon.startswith(croot + "/"))


DEPTH = 3
DEEP = ["..", "lo", "li", "data", "x"]  # reduced alphabet used for the 4th level


def pick_path(sp, depth=None):
    depth = depth or DEPTH
    h = HEADS[sp.choose(len(HEADS), name="head")]
    n = 1 + sp.choose(depth, name="ncomp")
    if n <= 3:
        comps = [COMPONENTS[sp.choose(len(COMPONENTS), name=f"c{i}")] for i in range(n)]
    else:
        comps = [DEEP[sp.choose(len(DEEP), name=f"c{i}")] for i in range(n)]
    sep = ["/", "//"][sp.choose(2, name="sep")]
    return h + sep.join(comps)


SECRETS = (b"TOP-SECRET",)


def _leaks(v):
    if isinstance(v, (bytes, bytearray)):
        return any(s in bytes(v) for s in SECRETS)
    if isinstance(v, str):
        return "secret" in v or "TOP-SECRET" in v
    if isinstance(v, (list, tuple)):
        return any(_leaks(x) for x in v)
    return False


def _call(entry, t, st, dfm, path):
    if entry == "read_file":
        return st.read_file(path)
    if entry == "open_file":
        with st.open_file(path) as f:
            return f.read()
    if entry == "open_seekable":
        with st.open_seekable(path) as f:
            return f.read()
    if entry == "write_file":
        return st.write_file(path, b"written-by-test")
    if entry == "exists":
        return st.exists(path)
    if entry == "list_files":
        return st.list_files(path)
    if entry == "delete_file":
        return st.delete_file(path)
    if entry == "makedirs":
        return st.makedirs(path)
    if entry == "get_size":
        return st.get_size(path)
    if entry == "get_modified_time":
        return st.get_modified_time(path)
    if entry == "create_lock":
        lk = st.create_lock(path, timeout=0.01)
        lk.acquire()
        lk.release()
        return None
    if entry == "open_parquet_source":
        with dfm.open_parquet_source(path) as f:
            return f.read()
    if entry == "read_data_file":
        return dfm.read_data_file(path)
    if entry == "validate_file_exists":
        return t.file_manager.validate_file_exists(path)
    if entry == "write_data_file":
        return dfm.write_data_file(path, [{"a": 1}], SCH)
    raise AssertionError(entry)


def entry(sp, entry="read_file", via_link=False, depth=3, warm=False):
    with Env(sp, rig="L", root="/lnk" if via_link else ROOT, clock="tick") as e:
        w = e.world
        fos = e.fos
        with w.inspect():
            build_tree(fos)
            if warm:
                swap_out_symlinks(fos)
        from datashard.storage_backend import LocalStorageBackend
        from datashard.transaction import Table
        t = Table(e.root, create_if_not_exists=False)
        st = t.storage
        dfm = t.file_manager.data_file_manager
        path = pick_path(sp, depth)
        if warm:
            # the SAME handle uses the SAME path string once while every component is still an ordinary directory / file; then the
            # components are re-pointed (symlinks leaving the root) and the path is used again: nothing remembered from the first
            # use may stand in for the boundary check
            try:
                _call(entry, t, st, dfm, path)
            except Exception:  # noqa
                pass
            with w.inspect():
                swap_in_symlinks(fos)
                for pth, data in (("/wh/tbl/data/f.parquet", b"inside-data"), ("/wh/tbl/x", b"inside-x")):
                    if fos._lookup(pth) is None:
                        try:
                            fos.put_file(pth, data)
                        except Exception:  # noqa
                            pass
        with w.inspect():
            fp0 = fingerprint(fos)
        croot = fos._resolve(e.root)[0]
        # canonical target as the single resolver defines it: table-relative, leading slashes stripped
        joined = os.path.join(croot, path.lstrip("/")) if True else None
        with w.inspect():
            canon = fos._resolve(joined)[0]
        if entry in ("open_parquet_source", "read_data_file", "write_data_file"):
            comps = path.split("/")
            first = comps[1] if path.startswith("/") and len(comps) > 1 else ""
            if path.startswith("/") and first not in ("data", "metadata"):
                with w.inspect():
                    canon = fos._resolve(path)[0]  # a true absolute path is taken literally by the read path
        escapes = outside(canon, croot)
        n0 = len(fos.access_log)
        raised = None
        got = None
        try:
            got = _call(entry, t, st, dfm, path)
        except Exception as ex:  # noqa
            raised = ex
        sp.note("path", path)
        sp.note("canonical", canon)
        sp.note("outcome", type(raised).__name__ if raised else "returned")
        sp.reach("ran")
        tag = f"{entry}:{'link' if via_link else 'direct'}{':re-pointed-after-first-use' if warm else ''}"
        bad = [(op, p) for (op, p) in fos.access_log[n0:] if outside(p, croot)]
        sp.require(not bad, f"{tag}: path {path!r} made the library {bad[0][0] if bad else ''} {bad[0][1] if bad else ''} outside the table root {croot}",
                   {"sig": f"{entry}:access-outside:{bad[0][0] if bad else ''}"})
        with w.inspect():
            fp1 = fingerprint(fos)
        sp.require(fp0 == fp1, f"{tag}: path {path!r} changed files outside the table root", {"sig": f"{entry}:sentinel-changed"})
        sp.require(not _leaks(got), f"{tag}: path {path!r} returned content / names from outside the table root: {got!r}", {"sig": f"{entry}:leak"})
        if escapes:
            ok = isinstance(raised, ValueError) and "ecurity" in str(raised)
            # exists-like probes may also answer False for an escaping path only by raising: the resolver is the single guard
            sp.require(ok, f"{tag}: escaping path {path!r} (resolves to {canon}) was not rejected with the security error: "
                       f"{'raised ' + type(raised).__name__ + ': ' + str(raised)[:80] if raised else 'returned ' + repr(got)[:60]}",
                       {"sig": f"{entry}:escape-not-rejected:{type(raised).__name__ if raised else 'returned'}"})


def tampered(sp, what="manifest_entry", via_link=False, depth=3):
    """An escaping path planted INSIDE the table's own metadata: a manifest entry, a snapshot's manifest-list path,
    an in-flight marker payload, then scan / row_count / garbage collection."""
    with Env(sp, rig="L", root="/lnk" if via_link else ROOT, clock="tick") as e:
        w = e.world
        fos = e.fos
        with w.inspect():
            build_tree(fos)
            for p in ("/wh/tbl/data/f.parquet", "/wh/tbl/x"):
                fos.remove(p)
            fos.remove("/wh/tbl/data/lo")
        t = e.table(schema=SCH)
        t.append_records([{"a": 1}])
        t.append_records([{"a": 2}])
        with w.inspect():
            # real parquet bytes under the sentinel names, so that a successful outside read would even parse
            good = [d for p, d in e.files().items() if p.startswith("data/")][0]
            fos.put_file("/outside/f.parquet", good)
            fos.put_file("/wh/tbl2/f.parquet", good)
            fp0 = fingerprint(fos)
        croot = fos._resolve(e.root)[0]
        evil = pick_path(sp, depth)
        with w.inspect():
            canon = fos._resolve(os.path.join(croot, evil.lstrip("/")))[0]
            comps = evil.split("/")
            first = comps[1] if evil.startswith("/") and len(comps) > 1 else ""
            if what == "manifest_entry" and evil.startswith("/") and first not in ("data", "metadata"):
                canon = fos._resolve(evil)[0]
        escapes = outside(canon, croot)
        if not escapes:
            sp.assume(False)
        with w.inspect():
            files = e.files()
            name, md = reader.current_metadata(files, loads=e.symjson.loads)
            cur = [s for s in md["snapshots"] if s["snapshot_id"] == md["current_snapshot_id"]][0]
            if what == "manifest_entry":
                mpath = reader.snapshot_manifests(files, cur)[-1]
                recs = list(fastavro.reader(io.BytesIO(files[mpath])))
                recs[0]["data_file"]["file_path"] = evil
                from datashard.avro_schemas import MANIFEST_ENTRY_SCHEMA
                b = io.BytesIO()
                fastavro.writer(b, MANIFEST_ENTRY_SCHEMA, recs)
                t.storage.write_file(mpath, b.getvalue())
            elif what == "manifest_list_path":
                import json
                md2 = json.loads(files["metadata/" + name].decode())
                for s in md2["snapshots"]:
                    if s["snapshot_id"] == md2["current_snapshot_id"]:
                        s["manifest_list"] = evil
                t.storage.write_file("metadata/" + name, json.dumps(md2).encode())
            elif what == "marker_payload":
                import json
                t.storage.write_file("metadata/inflight/evil.parquet.inflight", json.dumps({"file_path": evil}).encode())
            elif what == "manifest_path":
                ml = cur["manifest_list"].lstrip("/")
                recs = list(fastavro.reader(io.BytesIO(files[ml])))
                recs[-1]["manifest_path"] = evil
                from datashard.avro_schemas import MANIFEST_FILE_SCHEMA
                b = io.BytesIO()
                fastavro.writer(b, MANIFEST_FILE_SCHEMA, recs)
                t.storage.write_file(ml, b.getvalue())
        n0 = len(fos.access_log)
        outcomes = {}
        t2 = e.table()
        w.clock.advance(10_000)
        for opn, fn in (("scan", lambda: t2.scan()), ("scan_noverify", lambda: t2.scan(verify_checksums=False)), ("row_count", lambda: t2.row_count()),
                        ("batches", lambda: list(t2.scan_batches(batch_size=1, verify_checksums=False))), ("gc", lambda: t2.garbage_collect(0))):
            try:
                outcomes[opn] = ("ret", fn())
            except Exception as ex:  # noqa
                outcomes[opn] = ("exc", ex)
        sp.note("planted", f"{what}={evil!r} -> {canon}")
        sp.note("outcomes", {k: (v[0], type(v[1]).__name__) for k, v in outcomes.items()})
        sp.reach("ran")
        tag = f"tampered:{what}:{'link' if via_link else 'direct'}"
        bad = [(op, p) for (op, p) in fos.access_log[n0:] if outside(p, croot)]
        sp.require(not bad, f"{tag}: planted path {evil!r} made the library {bad[0][0] if bad else ''} {bad[0][1] if bad else ''} outside the table root",
                   {"sig": f"tampered:{what}:access-outside"})
        with w.inspect():
            fp1 = fingerprint(fos)
        sp.require(fp0 == fp1, f"{tag}: planted path {evil!r} changed files outside the table root", {"sig": f"tampered:{what}:sentinel-changed"})
        if what in ("manifest_entry", "manifest_list_path", "manifest_path"):
            for opn in ("scan", "scan_noverify", "batches"):
                k, v = outcomes[opn]
                if what == "manifest_entry" or opn:
                    sp.require(k == "exc", f"{tag}: {opn} over a table whose metadata names the escaping path {evil!r} returned {v!r} instead of raising",
                               {"sig": f"tampered:{what}:{opn}-returned"})


LOCK_PLANTS = [("lockfile_abs", ".locks/metadata.lock", "/outside/planted_by_commit"),
               ("lockfile_rel", ".locks/metadata.lock", "../../../outside/planted_by_commit"),
               ("lockfile_sibling", ".locks/metadata.lock", "../../tbl2/planted_by_commit"),
               ("lockdir", ".locks", "/outside/sub")]


def planted_lock(sp, via_link=False):
    """The table's own lock file (or its directory) is a symlink leaving the root - dangling, so that taking the lock would CREATE the
    target.  Creating the table, committing and taking the lock directly must not create, open or lock anything outside."""
    with Env(sp, rig="L", root="/lnk" if via_link else ROOT, clock="tick") as e:
        w = e.world
        fos = e.fos
        with w.inspect():
            build_tree(fos)
            for p in ("/wh/tbl/data/f.parquet", "/wh/tbl/x"):
                fos.remove(p)
            fos.remove("/wh/tbl/data/lo")
        existing = sp.choose(2, name="table_exists_before_the_plant")
        if existing:
            t0 = e.table(schema=SCH)
            t0.append_records([{"a": 1}])
        name, rel, target = LOCK_PLANTS[sp.choose(len(LOCK_PLANTS), name="plant")]
        with w.inspect():
            full = "/wh/tbl/" + rel
            if fos._lookup(full, follow=False) is not None:
                (fos.rmtree if name == "lockdir" else fos.remove)(full)
            if name != "lockdir" and fos._lookup("/wh/tbl/.locks") is None:
                fos.mkdir_durable("/wh/tbl/.locks")
            fos.put_symlink(full, target)
            fp0 = fingerprint(fos)
        croot = fos._resolve(e.root)[0]
        n0 = len(fos.access_log)
        outcomes = {}

        def create_and_append():
            t = e.table(schema=SCH)
            t.append_records([{"a": 2}])

        def take_lock():
            t = e.table(schema=SCH) if existing else None
            from datashard.storage_backend import LocalStorageBackend
            st = t.storage if t is not None else LocalStorageBackend(e.root)
            lk = st.create_lock(".locks/metadata.lock", timeout=0.01)
            lk.acquire()
            lk.release()
        for opn, fn in (("create+append", create_and_append), ("create_lock", take_lock)):
            try:
                fn()
                outcomes[opn] = "returned"
            except Exception as ex:  # noqa
                outcomes[opn] = f"{type(ex).__name__}: {str(ex)[:60]}"
        sp.note("planted", f"{rel} -> {target}")
        sp.note("outcomes", outcomes)
        sp.reach("ran")
        tag = f"planted_lock:{name}:{'link' if via_link else 'direct'}"
        bad = [(op, p) for (op, p) in fos.access_log[n0:] if outside(p, croot)]
        sp.require(not bad, f"{tag}: with {rel} -> {target} the library did '{bad[0][0] if bad else ''}' on {bad[0][1] if bad else ''} outside the table root",
                   {"sig": f"planted_lock:{name}:access-outside"})
        with w.inspect():
            fp1 = fingerprint(fos)
        sp.require(fp0 == fp1, f"{tag}: with {rel} -> {target} files outside the table root were created / changed: "
                   f"{sorted(set(fp1) ^ set(fp0)) or [k for k in fp0 if fp0[k] != fp1.get(k)]}", {"sig": f"planted_lock:{name}:sentinel-changed"})


def realpath_model_check():
    """native: FakeOS._resolve == os.path.realpath on the same tree for every grammar path (both root spellings)."""
    from vf.rigs.fakeos import FakeOS
    from vf.rigs.world import World
    fos = FakeOS(World(None))
    build_tree(fos)
    tmp = tempfile.mkdtemp(prefix="vf_c17_")
    n = 0
    try:
        def real(p):
            return tmp + p
        for d in ("/wh/tbl/data", "/wh/tbl/metadata", "/wh/tbl2", "/outside/sub"):
            os.makedirs(real(d))
        for f in ("/outside/secret.txt", "/outside/f.parquet", "/outside/sub/secret.txt", "/wh/tbl2/secret.txt", "/wh/tbl2/f.parquet",
                  "/wh/secret.txt", "/wh/tbl/data/f.parquet", "/wh/tbl/x"):
            open(real(f), "wb").write(b"x")
        os.symlink("data", real("/wh/tbl/li"))
        os.symlink(real("/outside"), real("/wh/tbl/lo"))
        os.symlink("../../tbl2", real("/wh/tbl/data/lo"))
        os.symlink(real("/outside/planted.lock"), real("/wh/tbl/lk"))
        os.symlink(real("/wh/tbl"), real("/lnk"))
        bad = []
        for root in ("/wh/tbl", "/lnk"):
            for h in HEADS:
                for nc in (1, 2, 3):
                    for comps in itertools.product(COMPONENTS, repeat=nc):
                        if nc == 3 and comps[0] not in ("..", "lo", "li", "lk", "data", ""):
                            continue
                        for sep in ("/", "//"):
                            p = h + sep.join(comps)
                            joined = os.path.join(root, p.lstrip("/"))
                            a = fos._resolve(joined)[0]
                            # absolute link targets were created under tmp: map back
                            b = os.path.realpath(real(joined))
                            b = b[len(os.path.realpath(tmp)):] or "/"
                            n += 1
                            if a != b:
                                bad.append((joined, a, b))
        if bad:
            return {"status": "error", "detail": f"FakeOS realpath model disagrees with os.path.realpath on {len(bad)} of {n} paths, e.g. {bad[:3]}",
                    "paths": n, "nontrivial": n}
        return {"status": "holds", "paths": n, "nontrivial": n, "queries": 0, "solver_s": 0.0, "exhaustive": True, "crosschecks": n,
                "samples": [{"path": "/wh/tbl/lo/../x", "fake": fos._resolve("/wh/tbl/lo/../x")[0]}], "detail": ""}
    finally:
        shutil.rmtree(tmp, ignore_errors=True)


def obligations(tier):
    obs = []
    T = 400 if tier == "quick" else 1500
    D = 2 if tier == "quick" else 3
    key = ["read_file", "list_files", "open_parquet_source", "write_file", "delete_file"]
    obs.append(Ob("model.realpath_vs_os", "vf.props.c17:realpath_model_check", {}, engine="native", timeout=300,
                  bounds="FakeOS path resolution vs real os.path.realpath over the grammar (depth <= 3, both root spellings)", weight=1))

    def entry_ob(en, vl, depth, inc=False):
        return Ob(f"entry.{en}.{'link' if vl else 'direct'}{'.d4' if depth == 4 else ''}", "vf.props.c17:entry",
                  {"entry": en, "via_link": vl, "depth": depth, "_must_reach": ["ran"], "_sample_every": 200}, timeout=T,
                  bounds=f"entry point {en}, root {'via symlink' if vl else 'direct'}, every grammar path (8 heads x <= {depth} components x 2 separators"
                         f"{'; 4th level over the reduced alphabet' if depth == 4 else ''})", weight=5, allow_inconclusive=inc)
    for en in ENTRY:
        obs.append(entry_ob(en, False, D))
        if en in key:
            obs.append(entry_ob(en, True, D))
    if tier == "thorough":
        # depth 4 (about 33 k paths per entry point): the entry points that read, write and delete
        for en in ("read_file", "write_file", "delete_file", "open_parquet_source"):
            obs.append(entry_ob(en, False, 4, inc=True))
    for en in key:
        obs.append(Ob(f"repointed.{en}", "vf.props.c17:entry", {"entry": en, "via_link": False, "depth": D, "warm": True, "_must_reach": ["ran"], "_sample_every": 200},
                      timeout=T, bounds=f"entry point {en}: the same handle used the same path once while its components were ordinary directories; "
                                        f"they are then re-pointed (symlinks leaving the root) and the path is used again; every grammar path (depth <= {D})", weight=5))
    for vl in (False, True):
        obs.append(Ob(f"planted_lock.{'link' if vl else 'direct'}", "vf.props.c17:planted_lock", {"via_link": vl, "_must_reach": ["ran"]}, timeout=T,
                      bounds="the table's lock file / lock directory is a dangling symlink leaving the root (4 plants x table exists or not); "
                             "create + append, create_lock + acquire", weight=2))
    for what in ("manifest_entry", "manifest_list_path", "manifest_path", "marker_payload"):
        for vl in ((False, True) if tier == "thorough" else (False,)):
            obs.append(Ob(f"tampered.{what}.{'link' if vl else 'direct'}", "vf.props.c17:tampered", {"what": what, "via_link": vl, "depth": D, "_must_reach": ["ran"], "_sample_every": 200},
                          timeout=T, bounds=f"escaping grammar path (<= {D} components) planted as {what}, then scan / scan(verify off) / row_count / batches / collection", weight=6))
    return obs
