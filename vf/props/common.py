"""Shared pieces of the table-level (E2) harnesses: schema, table pre-loading, operation kinds, serial model."""
from datashard.data_structures import Schema
from datashard.metadata_manager import ConcurrentModificationException

from vf.oracles import reader
from vf.rigs.world import Killed

SCH = Schema(schema_id=1, fields=[{"id": 1, "name": "a", "type": "long", "required": True}])
HINT = "metadata.version-hint.text"


def is_hint(info):
    p = info.get("path") or info.get("key") or ""
    return p.endswith(HINT)


def is_lock(info):
    p = info.get("path") or info.get("key") or ""
    return ".locks/" in p or p.endswith(".lock")


def protocol_points(label, info):
    """Scheduling points for commit-protocol harnesses: operations on SHARED MUTABLE objects only - the pointer
    file, the lock object/inode, deletions.  Reads/writes of write-once uniquely named files commute with
    everything here and are not points (stated bound)."""
    if label in ("flock",):
        return True
    if is_hint(info):
        return label in ("stat", "open_r", "replace", "rename", "put>", "put<", "get>", "head>", "open", "write")
    if is_lock(info):
        return label in ("open", "close", "put>", "put<", "get>", "head>", "del>", "del<")
    if label in ("sleep", "rlock"):
        return True
    return False


def preload(env, n=3, schema=SCH):
    """Create the table and commit n single-row appends (rows 1..n). Returns (table, [snapshot dicts])."""
    t = env.table(schema=schema)
    for i in range(1, n + 1):
        t.append_records([{"a": i}])
    md = t.metadata_manager.refresh()
    return t, list(md.snapshots)


def metadata_now(env):
    """(name, metadata dict) via the independent reader."""
    with env.world.inspect():
        files = env.files()
    return reader.current_metadata(files, loads=env.symjson.loads)


def rows_now(env, key="a"):
    with env.world.inspect():
        files = env.files()
    return reader.current_rows(files, key, loads=env.symjson.loads)


def pointer_flips(env):
    """[(step, actor)] of applied pointer writes, in order."""
    if env.rig == "L":
        return [(st, a, dst) for (st, src, dst, a) in env.fos.rename_log if dst.endswith(HINT)]
    if env.rig == "S":
        return [(st, a, k) for (st, k, a, before, after) in env.s3.put_log if k.endswith(HINT)]
    return [(i, None, p) for i, (op, p) in enumerate(env.mem.log) if op in ("write", "cas") and p.endswith(HINT)]


class Model:
    """Serial reference model of a table: ordered snapshots (id -> row set), current id."""

    def __init__(self, snaps, rows_by_id, current):
        self.order = list(snaps)  # snapshot ids in commit order
        self.rows = dict(rows_by_id)
        self.current = current
        self.new = 0
        self.parents = {}

    def cur_rows(self):
        return set(self.rows[self.current]) if self.current in self.rows else set()

    def apply(self, op):
        k = op[0]
        if k == "append":
            r = self.cur_rows() | set(op[1])
            self._commit(r)
        elif k == "delete_rows":
            r = self.cur_rows() - set(op[1])
            self._commit(r)
        elif k == "replace":
            r = (self.cur_rows() - set(op[2])) | set(op[1])
            self._commit(r)
        elif k == "delete_snapshot":
            sid = op[1]
            if sid in self.order:
                self.order.remove(sid)
                if self.current == sid:
                    self.current = self.order[-1] if self.order else None
        elif k == "expire_ids":
            for sid in op[1]:
                if sid in self.order and sid != self.current:
                    self.order.remove(sid)
        else:
            raise ValueError(k)

    def _commit(self, rows):
        self.new += 1
        sid = ("new", self.new)
        self.parents[sid] = self.current
        self.order.append(sid)
        self.rows[sid] = set(rows)
        self.current = sid


def outcome(fn):
    """Run an operation; classify: ('ok', result) | ('conflict', e) | ('error', e) ; Killed propagates."""
    try:
        return ("ok", fn())
    except ConcurrentModificationException as e:
        return ("conflict", e)
    except Killed:
        raise
    except Exception as e:  # noqa
        return ("error", e)
