"""Baton scheduler: real Python threads, exactly one runnable at a time; hand-over only at rig points.

The next actor is a solver choice (`sp.choose`), under a PRE-EMPTION BOUND K: a context switch away from an
actor that could have continued costs one pre-emption; when K are spent the running actor continues until it
blocks or finishes.  Blocked actors (waiting on a predicate: lock free, deadline reached) are not schedulable;
when nobody is runnable but some actor waits on a time condition, `on_idle` lets virtual time jump."""
import threading


class Abort(BaseException):
    pass


class Deadlock(Exception):
    pass


class Sched:
    def __init__(self, sp, K=2, on_idle=None, max_steps=20000, world=None, pause_max_ms=0):
        self.sp = sp
        self.world = world
        self.pause_max_ms = pause_max_ms  # a pre-empted actor is PAUSED: virtual time may jump by [0, pause_max_ms]
        self.npause = 0
        self.K = K
        self.preempts = 0
        self.cv = threading.Condition()
        self.current = None
        self.last = None
        self.threads = {}
        self.done = set()
        self.errors = {}
        self.results = {}
        self.trace = []
        self.waiting = {}
        self.fatal = None
        self.aborting = False
        self.on_idle = on_idle
        self.steps = 0
        self.max_steps = max_steps

    # ---- choice under the pre-emption bound
    def _choose(self, enabled):
        if len(enabled) == 1:
            return enabled[0]
        cur = self.last
        if cur in enabled:
            if self.preempts >= self.K:
                return cur
            others = [t for t in enabled if t != cur]
            c = self.sp.choose(1 + len(others), name=f"s{len(self.trace)}")
            if c == 0:
                return cur
            self.preempts += 1
            if self.pause_max_ms and self.world is not None:
                self.npause += 1
                self.world.clock.advance_sym(f"pause{self.npause}", 0, self.pause_max_ms)
            return others[c - 1]
        c = self.sp.choose(len(enabled), name=f"s{len(self.trace)}")
        return enabled[c]

    def spawn(self, tid, fn):
        def run():
            threading.current_thread().tid = tid
            try:
                with self.cv:
                    while self.current != tid:
                        if self.aborting:
                            raise Abort()
                        self.cv.wait(0.05)
                self.results[tid] = fn()
            except Abort:
                pass
            except Exception as e:  # noqa
                from vf.symx import Violation
                if isinstance(e, Violation):  # a property assertion made inside an actor: stop the run, report in main
                    self.fatal = e
                    self.aborting = True
                else:
                    self.errors[tid] = e
            except BaseException as e:  # engine control flow (PathAbort, Killed of harness, ...)
                from vf.rigs.world import Killed
                if isinstance(e, Killed):
                    self.errors[tid] = e
                else:
                    self.fatal = e
                    self.aborting = True
            with self.cv:
                self.done.add(tid)
                if not self.aborting:
                    try:
                        self._pick()
                    except BaseException as e:  # noqa
                        self.fatal = e
                        self.aborting = True
                if self.aborting:
                    self.current = "main"
                self.cv.notify_all()

        th = threading.Thread(target=run, daemon=True)
        self.threads[tid] = th
        th.start()

    def _pick(self):
        self.steps += 1
        if self.steps > self.max_steps:
            raise Deadlock(f"step budget exceeded ({self.max_steps})")
        live = [t for t in sorted(self.threads, key=str) if t not in self.done]
        if not live:
            self.current = "main"
            self.cv.notify_all()
            return
        for _ in range(3):
            enabled = [t for t in live if t not in self.waiting or self.waiting[t]()]
            if enabled:
                break
            if self.on_idle is not None:
                if not self.on_idle(self):
                    break
            elif not self._wake_sleeper():
                break
        if not enabled:
            raise Deadlock(f"no runnable actor among {live}")
        nxt = self._choose(enabled)
        self.current = nxt
        self.last = nxt
        self.trace.append(nxt)
        self.cv.notify_all()

    def _wake_sleeper(self):
        """Nobody can run: virtual time passes until the first sleeper's sleep() ends."""
        w = self.world
        if w is None or not w.sleepers:
            return False
        for t in sorted(w.sleepers, key=str):
            if t not in self.done and not w.sleepers[t]["forced"]:
                w.sleepers[t]["forced"] = True
                return True
        return False

    def yield_point(self, tid, label=None, until=None):
        with self.cv:
            if self.aborting:
                raise Abort()
            if until is not None:
                self.waiting[tid] = until
            try:
                self._pick()
            except BaseException as e:  # noqa
                self.fatal = e
                self.aborting = True
                self.current = "main"
                self.cv.notify_all()
                raise Abort()
            while self.current != tid:
                if self.aborting:
                    raise Abort()
                self.cv.wait(0.05)
            self.waiting.pop(tid, None)

    def run(self):
        with self.cv:
            try:
                self._pick()
            except BaseException:
                self.aborting = True
                self.cv.notify_all()
                raise
            while self.current != "main":
                self.cv.wait(0.05)
        for th in self.threads.values():
            th.join(2.0)
        if self.fatal is not None:
            raise self.fatal

    def trace_str(self):
        return "".join(str(t) for t in self.trace)


class SchedRLock:
    """Scheduler-aware re-entrant lock replacing threading.RLock inside the library's modules: a thread that
    would block is descheduled until the owner releases (otherwise the baton holder could block forever)."""
    world = None

    def __init__(self):
        self.owner = None
        self.n = 0

    def acquire(self, blocking=True, timeout=-1):
        tid = getattr(threading.current_thread(), "tid", "main")
        if self.owner == tid:
            self.n += 1
            return True
        w = SchedRLock.world
        sc = w.sched if w is not None else None
        if sc is not None and tid != "main" and self.owner is not None:
            sc.yield_point(tid, "rlock", until=lambda: self.owner is None)
        if self.owner is not None:
            raise AssertionError("RLock contended outside the scheduler")
        self.owner = tid
        self.n = 1
        return True

    def release(self):
        self.n -= 1
        if self.n == 0:
            self.owner = None

    __enter__ = acquire

    def __exit__(self, *a):
        self.release()


class SchedLock:
    """Scheduler-aware non-re-entrant lock (threading.Lock created by the library while a harness runs)."""

    def __init__(self):
        self.owner = None

    def acquire(self, blocking=True, timeout=-1):
        tid = getattr(threading.current_thread(), "tid", "main")
        w = SchedRLock.world
        sc = w.sched if w is not None else None
        if self.owner is not None:
            if not blocking:
                return False
            if self.owner == tid:
                raise AssertionError("threading.Lock re-acquired by its owner (self-deadlock)")
            if sc is not None and tid != "main":
                sc.yield_point(tid, "rlock", until=lambda: self.owner is None)
        if self.owner is not None:
            raise AssertionError("Lock contended outside the scheduler")
        self.owner = tid
        return True

    def release(self):
        self.owner = None

    def locked(self):
        return self.owner is not None

    __enter__ = acquire

    def __exit__(self, *a):
        self.release()


class SchedEvent:
    """Scheduler-aware threading.Event: wait() deschedules the caller until set() (a real wait would block the baton holder)."""

    def __init__(self):
        self.flag = False

    def is_set(self):
        return self.flag

    isSet = is_set

    def set(self):
        self.flag = True
        w = SchedRLock.world
        if w is not None:
            w.epoch += 1

    def clear(self):
        self.flag = False

    def wait(self, timeout=None):
        if self.flag:
            return True
        tid = getattr(threading.current_thread(), "tid", "main")
        w = SchedRLock.world
        sc = w.sched if w is not None else None
        if sc is not None and tid != "main":
            sc.yield_point(tid, "rlock", until=lambda: self.flag)
        return self.flag

