"""Regenerates /verif/MANIFEST.json from the props modules that exist (developer tool)."""
import importlib
import json
import os

HERE = os.path.dirname(os.path.dirname(os.path.abspath(__file__)))
ALL = [f"C{i:02d}" for i in range(1, 21)]


def main():
    checks = []
    na = []
    for p in ALL:
        try:
            m = importlib.import_module(f"vf.props.{p.lower()}")
        except ImportError:
            na.append({"property_id": p, "reason": "check not built yet in this round (see DESIGN.md section 4 for the planned harness)"})
            continue
        if getattr(m, "NOT_APPLICABLE", None):
            na.append({"property_id": p, "reason": m.NOT_APPLICABLE})
            continue
        checks.append({
            "property_id": p,
            "quick_cmd": f"./check {p} --tier quick",
            "thorough_cmd": f"./check {p} --tier thorough",
            "evidence_file": f"/verif/evidence/{p}.json",
            "replay_cmd_template": f"./check {p} --replay {{path}}",
            "engine": getattr(m, "ENGINE", "symx+crosshair"),
            "level_claimed": {"category": getattr(m, "LEVEL", "other"), "text": m.EXPLANATION,
                              "design_ref": f"DESIGN.md section 4, {p}"},
            "level_note": "; ".join(m.ASSUMPTIONS),
            "technique": getattr(m, "TECHNIQUE", "bounded symbolic execution of the real Python code with z3 (CrossHair and/or symx); "
                                                 "solver verdict per path, counterexamples replayed natively"),
        })
    man = {
        "version": 1,
        "setup_cmd": "./check setup",
        "hooks": {
            "guard": "DATASHARD_VERIF",
            "enable": "no source hooks: all interposition is done at run time by rebinding names in the library's module "
                      "namespaces from the harness (DATASHARD_VERIF is reserved and unused)",
            "baseline_off_cmd": "cd /repo && /venv/bin/python -m pytest -ra -q -p no:cacheprovider --timeout=900 --continue-on-collection-errors",
            "source_commits": [],
            "add_only": True,
        },
        "engines": [
            {"name": "symx", "path": "vf/symx.py", "serves_properties": ALL,
             "kind_free_text": "own z3-backed fork-by-re-execution symbolic executor running the real code natively; "
                               "clock/ages/schedule/crash/fault positions are solver variables"},
            {"name": "crosshair", "path": "vf/worker.py", "serves_properties": ["C05", "C09", "C10", "C11", "C12", "C13", "C15", "C17", "C19", "C20"],
             "kind_free_text": "CrossHair 0.0.110 (symbolic execution of Python with z3) on unit-level kernels with rich data"},
        ],
        "checks": checks,
        "not_applicable": na,
        "notes": "All checks import datashard from /repo/src (editable install) on every run; nothing derived from /repo is cached. "
                 "Exit codes: 0 held / known findings only, 1 new replayed violation, 2 harness error.",
    }
    with open(os.path.join(HERE, "MANIFEST.json"), "w") as f:
        json.dump(man, f, indent=1)
    print(f"MANIFEST: {len(checks)} checks, {len(na)} not_applicable")


if __name__ == "__main__":
    main()
