"""Developer tool: validate MANIFEST.json and evidence/*.json against the given schemas (run with python3-vt)."""
import glob, json, sys
import jsonschema
ok = True
try:
    jsonschema.validate(json.load(open('/verif/MANIFEST.json')), json.load(open('/root/.vp/MANIFEST.schema.json')))
    print("MANIFEST ok")
except Exception as e:
    ok = False; print("MANIFEST INVALID", str(e)[:500])
sch = json.load(open('/root/.vp/EVIDENCE.schema.json'))
for f in sorted(glob.glob('/verif/evidence/*.json')):
    try:
        jsonschema.validate(json.load(open(f)), sch); print(f, "ok")
    except Exception as e:
        ok = False; print(f, "INVALID", str(e)[:500])
sys.exit(0 if ok else 1)
