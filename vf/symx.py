"""symx (engine E2): fork-by-re-execution symbolic execution of real Python code at native speed.

Symbolic values are z3-backed proxies (SInt / SBool / SSecs).  The only place a path forks is
SBool.__bool__: the engine asks z3 whether the branch condition and its negation are satisfiable
under the current path condition, follows one, remembers the other; exploration is DFS with
decision-prefix replay (the harness is re-executed from scratch for every path).

`sp.require(cond)` is the property assertion: z3 is asked for a model of  path-condition AND NOT cond.
unsat = holds for ALL values on this path; sat = counterexample (values of all solver variables).

Concrete mode (`Space(concrete=model)`) runs the same harness with plain Python ints taken from a
model: no z3, no proxies.  It is used to replay counterexamples and to cross-check the engine.
"""
import builtins
import threading
import time

import z3

SYM_MARK = "⟨sym⟩"


class Unsupported(Exception):
    """A symbolic value reached an operation the engine cannot model soundly."""


class PathAbort(BaseException):
    """Infeasible / pruned path (engine control flow)."""


class Violation(Exception):
    def __init__(self, msg, model, info=None):
        super().__init__(msg)
        self.msg = msg
        self.model = model
        self.info = info or {}
        self.decisions = []


_cur = None
STATS = {"queries": 0, "solver_s": 0.0}


def space():
    return _cur


class Space:
    def __init__(self, prefix=(), prefix_open=None, concrete=None):
        self.concrete = concrete  # dict name -> int, or None for symbolic mode
        self.solver = z3.Solver() if concrete is None else None
        self.prefix = list(prefix)
        self.prefix_open = list(prefix_open) if prefix_open is not None else [False] * len(self.prefix)
        self.taken = []
        self.open = []
        self.nvars = 0
        self.inputs = {}
        self.order = []
        self.queries = 0
        self.qtime = 0.0
        self.lock = threading.RLock()
        self.notes = {}
        self.reached = set()
        self.sym_decisions = 0
        self.requires = 0

    # ---- solver plumbing -------------------------------------------------
    def _check(self, *assumptions):
        t = time.perf_counter()
        r = self.solver.check(*assumptions)
        self.qtime += time.perf_counter() - t
        self.queries += 1
        if r == z3.unknown:
            raise Unsupported("z3 returned unknown")
        return r

    def fresh_int(self, name, lo=None, hi=None):
        with self.lock:
            self.nvars += 1
            base = name
            k = 1
            while name in self.inputs:
                k += 1
                name = f"{base}#{k}"
            self.order.append(name)
            if self.concrete is not None:
                v = self.concrete.get(name)
                if v is None:
                    v = lo if lo is not None else 0
                v = builtins.int(v)
                if (lo is not None and v < lo) or (hi is not None and v > hi):
                    raise PathAbort()
                self.inputs[name] = v
                return v
            v = z3.Int(name)
            self.inputs[name] = v
            if lo is not None:
                self.solver.add(v >= lo)
            if hi is not None:
                self.solver.add(v <= hi)
            return SInt(v)

    def decide(self, term):
        with self.lock:
            term = z3.simplify(term)
            if z3.is_true(term):
                return True
            if z3.is_false(term):
                return False
            i = len(self.taken)
            if i < len(self.prefix):
                d = self.prefix[i]
                self.taken.append(d)
                self.open.append(self.prefix_open[i])
                self.solver.add(term if d else z3.Not(term))
                self.sym_decisions += 1
                return d
            can_t = self._check(term) == z3.sat
            can_f = self._check(z3.Not(term)) == z3.sat
            if not can_t and not can_f:
                raise PathAbort()
            d = can_t
            if can_t and can_f:
                self.sym_decisions += 1
            self.taken.append(d)
            self.open.append(can_t and can_f)
            self.solver.add(term if d else z3.Not(term))
            return d

    def choose(self, n, name=None):
        """Finite choice in [0,n): a fresh solver variable that z3 case-splits."""
        if n <= 1:
            return 0
        c = self.fresh_int(name or f"c{self.nvars}", 0, n - 1)
        if self.concrete is not None:
            return c
        for i in range(n - 1):
            if c == i:
                return i
        return n - 1

    def model(self):
        if self.concrete is not None:
            return dict(self.inputs)
        if self._check() != z3.sat:
            raise PathAbort()
        m = self.solver.model()
        return {k: m.eval(v, model_completion=True).as_long() for k, v in self.inputs.items()}

    def require(self, cond, msg, info=None):
        """Property assertion: must hold for ALL values consistent with this path."""
        with self.lock:
            self.requires += 1
            if self.concrete is not None:
                if not cond:
                    raise Violation(msg, dict(self.inputs), info)
                return
            if isinstance(cond, SBool):
                term = cond.t
            else:
                term = z3.BoolVal(bool(cond))
            if self._check(z3.Not(term)) == z3.sat:
                m = self.solver.model()
                model = {k: m.eval(v, model_completion=True).as_long() for k, v in self.inputs.items()}
                raise Violation(msg, model, info)
            self.solver.add(term)

    def assume(self, cond):
        with self.lock:
            if self.concrete is not None:
                if not cond:
                    raise PathAbort()
                return
            term = cond.t if isinstance(cond, SBool) else z3.BoolVal(bool(cond))
            self.solver.add(term)
            if self._check() != z3.sat:
                raise PathAbort()

    def note(self, k, v):
        self.notes[k] = v

    def reach(self, tag):
        self.reached.add(tag)


def _t(x):
    if isinstance(x, SInt):
        return x.t
    if isinstance(x, bool):
        return z3.IntVal(1 if x else 0)
    if isinstance(x, builtins.int):
        return z3.IntVal(x)
    return None


class SBool:
    __slots__ = ("t",)

    def __init__(self, t):
        self.t = t

    def __bool__(self):
        return _cur.decide(self.t)

    def __invert__(self):
        return SBool(z3.Not(self.t))

    def __and__(self, o):
        return SBool(z3.And(self.t, o.t if isinstance(o, SBool) else z3.BoolVal(bool(o))))

    __rand__ = __and__

    def __or__(self, o):
        return SBool(z3.Or(self.t, o.t if isinstance(o, SBool) else z3.BoolVal(bool(o))))

    __ror__ = __or__

    def __hash__(self):
        raise Unsupported("hash of symbolic bool")

    def __repr__(self):
        return SYM_MARK


def sand(*xs):
    """Conjunction that never forks (use inside require/assume arguments)."""
    ts = []
    for x in xs:
        if isinstance(x, SBool):
            ts.append(x.t)
        elif not x:
            return False
    if not ts:
        return True
    return SBool(z3.And(*ts))


def sor(*xs):
    ts = []
    for x in xs:
        if isinstance(x, SBool):
            ts.append(x.t)
        elif x:
            return True
    if not ts:
        return False
    return SBool(z3.Or(*ts))


def snot(x):
    if isinstance(x, SBool):
        return SBool(z3.Not(x.t))
    return not x


def simplies(a, b):
    return sor(snot(a), b)


class SInt:
    __slots__ = ("t",)

    def __init__(self, t):
        self.t = t

    def _bin(self, o, f):
        ot = _t(o)
        if ot is None:
            return NotImplemented
        return SInt(f(self.t, ot))

    def _cmp(self, o, f):
        ot = _t(o)
        if ot is None:
            return NotImplemented
        return SBool(f(self.t, ot))

    def __add__(s, o):
        return s._bin(o, lambda a, b: a + b)

    __radd__ = __add__

    def __sub__(s, o):
        return s._bin(o, lambda a, b: a - b)

    def __rsub__(s, o):
        return s._bin(o, lambda a, b: b - a)

    def __mul__(s, o):
        if isinstance(o, SInt):
            raise Unsupported("symbolic * symbolic")
        return s._bin(o, lambda a, b: a * b)

    __rmul__ = __mul__

    def __neg__(s):
        return SInt(-s.t)

    def __floordiv__(s, o):
        if not isinstance(o, builtins.int) or isinstance(o, bool) or o <= 0:
            raise Unsupported("floordiv by non-positive / symbolic")
        return SInt(s.t / z3.IntVal(o))  # z3 Int div == floor for positive divisor

    def __mod__(s, o):
        if not isinstance(o, builtins.int) or isinstance(o, bool) or o <= 0:
            raise Unsupported("mod by non-positive / symbolic")
        return SInt(s.t % z3.IntVal(o))

    def __eq__(s, o):
        r = s._cmp(o, lambda a, b: a == b)
        return False if r is NotImplemented else r

    def __ne__(s, o):
        r = s._cmp(o, lambda a, b: a != b)
        return True if r is NotImplemented else r

    def __lt__(s, o):
        return s._cmp(o, lambda a, b: a < b)

    def __le__(s, o):
        return s._cmp(o, lambda a, b: a <= b)

    def __gt__(s, o):
        return s._cmp(o, lambda a, b: a > b)

    def __ge__(s, o):
        return s._cmp(o, lambda a, b: a >= b)

    def __hash__(s):
        raise Unsupported("hash of symbolic int")

    def __int__(s):
        raise Unsupported("int() of symbolic int")

    def __index__(s):
        raise Unsupported("index of symbolic int")

    def __float__(s):
        raise Unsupported("float() of symbolic int")

    def __truediv__(s, o):
        raise Unsupported("true division of symbolic int")

    def __str__(s):
        return SYM_MARK

    __repr__ = __str__

    def __format__(s, f):
        return SYM_MARK

    def __bool__(s):
        return bool(s != 0)

    def __deepcopy__(s, memo):
        return s

    def __copy__(s):
        return s


def smax(a, b):
    if isinstance(a, SInt) or isinstance(b, SInt):
        return SInt(z3.If(_t(a) >= _t(b), _t(a), _t(b)))
    return builtins.max(a, b)


def smin(a, b):
    if isinstance(a, SInt) or isinstance(b, SInt):
        return SInt(z3.If(_t(a) <= _t(b), _t(a), _t(b)))
    return builtins.min(a, b)


def _ms(o):
    """seconds-ish operand -> milliseconds (int or SInt)."""
    if isinstance(o, SSecs):
        return o.ms
    if isinstance(o, bool):
        raise Unsupported("bool as seconds")
    if isinstance(o, (builtins.int, builtins.float)):
        return builtins.int(round(o * 1000))
    raise Unsupported(f"seconds operand {type(o).__name__}")


class SSecs:
    """A time value in seconds represented exactly as integer milliseconds (int or SInt).

    Supports what the code under test does with time.time()/monotonic()/mtime values:
    +,- with concrete seconds or other SSecs, *1000 (-> ms), comparisons."""

    __slots__ = ("ms",)

    def __init__(self, ms):
        self.ms = ms

    def __add__(s, o):
        return SSecs(s.ms + _ms(o))

    __radd__ = __add__

    def __sub__(s, o):
        return SSecs(s.ms - _ms(o))

    def __rsub__(s, o):
        return SSecs(_ms(o) - s.ms)

    def __mul__(s, o):
        if o == 1000 and not isinstance(o, SInt):
            return s.ms
        raise Unsupported("SSecs * k (k != 1000)")

    __rmul__ = __mul__

    def __lt__(s, o):
        return s.ms < _ms(o)

    def __le__(s, o):
        return s.ms <= _ms(o)

    def __gt__(s, o):
        return s.ms > _ms(o)

    def __ge__(s, o):
        return s.ms >= _ms(o)

    def __eq__(s, o):
        try:
            return s.ms == _ms(o)
        except Unsupported:
            return False

    def __ne__(s, o):
        try:
            return s.ms != _ms(o)
        except Unsupported:
            return True

    def __hash__(s):
        raise Unsupported("hash of SSecs")

    def __float__(s):
        if isinstance(s.ms, SInt):
            raise Unsupported("float() of symbolic seconds")
        return s.ms / 1000.0

    def __format__(s, f):
        if isinstance(s.ms, SInt):
            return SYM_MARK
        return format(s.ms / 1000.0, f)

    def __repr__(s):
        return f"SSecs({s.ms!r})"

    def __deepcopy__(s, memo):
        return s

    def timestamp(s):
        return s

    def total_seconds(s):
        return s

    # datetime.timedelta's NORMALISED fields (days may be negative, 0 <= seconds < 86400): what `.seconds` / `.days` return
    @property
    def days(s):
        return s.ms // 86_400_000

    @property
    def seconds(s):
        return (s.ms % 86_400_000) // 1000

    @property
    def microseconds(s):
        return (s.ms % 1000) * 1000


class _IntMeta(type):
    def __instancecheck__(cls, o):
        return isinstance(o, builtins.int)

    def __subclasscheck__(cls, c):
        return issubclass(c, builtins.int)


class IntShadow(builtins.int, metaclass=_IntMeta):
    """Module-level shadow of `int`: passes symbolic ints through, keeps isinstance(x, int)."""

    def __new__(cls, x=0, *a):
        if isinstance(x, SInt):
            return x
        if isinstance(x, SSecs):
            raise Unsupported("int() of seconds value")
        return builtins.int(x, *a)


class _FloatMeta(type):
    def __instancecheck__(cls, o):
        return isinstance(o, builtins.float)

    def __subclasscheck__(cls, c):
        return issubclass(c, builtins.float)


class FloatShadow(builtins.float, metaclass=_FloatMeta):
    def __new__(cls, x=0.0):
        if isinstance(x, SSecs):
            return x
        if isinstance(x, SInt):
            raise Unsupported("float() of symbolic int")
        return builtins.float(x)


def explore(harness, max_paths=10 ** 9, budget_s=10 ** 9, sample_every=0, max_samples=6, collect_all=False,
            max_violations=50):
    """DFS over the decision tree of `harness(sp)`.

    Returns dict(paths, aborted, queries, solver_s, exhaustive, wall, nontrivial, samples, violations).
    With collect_all=False the first Violation stops the exploration."""
    global _cur
    prefix = []
    prefix_open = []
    paths = aborted = nontrivial = requires = 0
    q = 0
    qt = 0.0
    t0 = time.time()
    samples = []
    violations = []
    reached = set()
    exhaustive = True
    while True:
        sp = Space(prefix, prefix_open)
        _cur = sp
        try:
            harness(sp)
            paths += 1
            if sp.sym_decisions or sp.requires:
                nontrivial += 1
            requires += sp.requires
            reached |= sp.reached
            if len(samples) < max_samples and (paths == 1 or (sample_every and paths % sample_every == 0)):
                try:
                    samples.append({"model": sp.model(), "notes": sp.notes, "decisions": len(sp.taken)})
                except PathAbort:
                    pass
        except PathAbort:
            aborted += 1
        except Violation as v:
            v.decisions = list(sp.taken)
            v.notes = dict(sp.notes)
            violations.append(v)
            paths += 1
            if not collect_all or len(violations) >= max_violations:
                q += sp.queries
                qt += sp.qtime
                exhaustive = False
                break
        finally:
            _cur = None
        q += sp.queries
        qt += sp.qtime
        taken, opn = sp.taken, sp.open
        i = len(taken) - 1
        while i >= 0 and not opn[i]:
            i -= 1
        if i < 0:
            break
        prefix = taken[:i] + [not taken[i]]
        prefix_open = opn[:i] + [False]
        if paths + aborted >= max_paths or time.time() - t0 > budget_s:
            exhaustive = False
            break
    STATS["queries"] += q
    STATS["solver_s"] += qt
    return dict(paths=paths, aborted=aborted, queries=q, solver_s=round(qt, 3), exhaustive=exhaustive,
                wall=round(time.time() - t0, 2), nontrivial=nontrivial, requires=requires, samples=samples,
                violations=violations, reached=sorted(reached))


def run_concrete(harness, model):
    """Run the harness once with concrete values (no engine). Returns (violation|None, space)."""
    global _cur
    sp = Space(concrete=dict(model))
    _cur = sp
    try:
        harness(sp)
        return None, sp
    except Violation as v:
        v.notes = dict(sp.notes)
        return v, sp
    except PathAbort:
        return None, sp
    finally:
        _cur = None
