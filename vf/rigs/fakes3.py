"""Rig S: FakeS3 - a strongly consistent object store with conditional writes, ETag = version counter,
LastModified from the virtual clock, S3's string-prefix listing (page size 2), Range reads, and real
botocore ClientError objects.  The real S3StorageBackend / S3LockProvider / with_s3_retry run on top.

Each request has two interposition points: '<op>>' BEFORE the server acts (a fault here is a clean error; a
descheduled thread here = request in flight) and '<op><' AFTER the server acted but before the response
returns (a fault here is an AMBIGUOUS error; descheduled = delayed response)."""
import re

from botocore.exceptions import ClientError

from vf.symx import SSecs, SYM_MARK


def cerr(code, op="Op", status=None):
    return ClientError({"Error": {"Code": code, "Message": code},
                        "ResponseMetadata": {"HTTPStatusCode": status or 500}}, op)


class Instant:
    """LastModified / now() value: integer (possibly symbolic) milliseconds."""

    def __init__(s, ms):
        s.ms = ms

    def __sub__(s, o):
        return SSecs(s.ms - o.ms)  # a timedelta: .total_seconds() -> SSecs

    def timestamp(s):
        return SSecs(s.ms)

    def __eq__(s, o):
        return isinstance(o, Instant) and (s.ms is o.ms or bool(s.ms == o.ms))

    def __ne__(s, o):
        return not s.__eq__(o)

    def __hash__(s):
        return 0


class Body:
    def __init__(s, b):
        s.b = b
        s.pos = 0

    def read(s, n=None):
        if n is None or n < 0:
            d = s.b[s.pos:]
        else:
            d = s.b[s.pos:s.pos + n]
        s.pos += len(d)
        return d

    def close(s):
        pass


class FakeS3:
    def __init__(self, world):
        self.world = world
        self.o = {}  # key -> (bytes, etag:int, Instant)
        self.ver = 0
        self.log = []  # (step, op, key, applied?)
        self.put_log = []  # applied writes: (step, key, actor, etag_before, etag_after)
        self.history = {}  # key -> [(step, body|None)]  (every applied write / delete)
        self.req_log = []  # (step, op, key, actor)
        self.times = {}  # (key, step) -> server clock (ms) of every applied change
        self.skew_ms = 0  # server clock = client (world) clock + skew_ms; may be symbolic; LastModified is SERVER time

    def _pt(self, label, key):
        if SYM_MARK in key:
            raise AssertionError(f"symbolic value leaked into an object key: {key!r}")
        self.world.point(label, key=key)
        from vf.rigs.world import actor as _a
        self.req_log.append((self.world.step, label, key, _a()))

    def content_at(self, key, step):
        """Body of `key` as of (just after) the given step, None if absent."""
        cur = None
        for st, body in self.history.get(key, []):
            if st <= step:
                cur = body
        return cur

    def _et(self, k):
        return '"%d"' % self.o[k][1]

    def put_object(self, Bucket, Key, Body, IfNoneMatch=None, IfMatch=None, **kw):
        self._pt("put>", Key)
        if isinstance(Body, (bytearray, memoryview)):
            Body = bytes(Body)
        if hasattr(Body, "read"):
            Body = Body.read()
        if IfNoneMatch == "*" and Key in self.o:
            raise cerr("PreconditionFailed", "PutObject", 412)
        if IfMatch is not None and (Key not in self.o or self._et(Key) != IfMatch):
            raise cerr("PreconditionFailed", "PutObject", 412)
        before = self.o[Key][1] if Key in self.o else None
        self.ver += 1
        self.o[Key] = (Body, self.ver, Instant(self.world.clock.peek() + self.skew_ms))
        from vf.rigs.world import actor
        self.put_log.append((self.world.step, Key, actor(), before, self.ver))
        self.history.setdefault(Key, []).append((self.world.step, Body))
        self.times[(Key, self.world.step)] = self.world.clock.peek() + self.skew_ms
        r = {"ETag": self._et(Key)}
        self._pt("put<", Key)
        return r

    def get_object(self, Bucket, Key, Range=None, **kw):
        self._pt("get>", Key)
        if Key not in self.o:
            raise cerr("NoSuchKey", "GetObject", 404)
        b, _, lm = self.o[Key]
        if Range:
            m = re.match(r"bytes=(\d+)-(\d+)$", Range)
            if not m:
                raise cerr("InvalidRange", "GetObject", 416)
            first, last = int(m.group(1)), int(m.group(2))
            if first >= len(b) or first > last:
                raise cerr("InvalidRange", "GetObject", 416)
            b = b[first:last + 1]
        return {"Body": Body(b), "ETag": self._et(Key), "LastModified": lm, "ContentLength": len(b)}

    def head_object(self, Bucket, Key, **kw):
        self._pt("head>", Key)
        if Key not in self.o:
            raise cerr("404", "HeadObject", 404)
        b, _, lm = self.o[Key]
        return {"ContentLength": len(b), "ETag": self._et(Key), "LastModified": lm}

    def delete_object(self, Bucket, Key, **kw):
        self._pt("del>", Key)
        if Key in self.o:
            self.history.setdefault(Key, []).append((self.world.step, None))
            self.times[(Key, self.world.step)] = self.world.clock.peek() + self.skew_ms
        self.o.pop(Key, None)
        self._pt("del<", Key)
        return {}

    PAGE = 2

    def list_objects_v2(self, Bucket, Prefix="", MaxKeys=1000, ContinuationToken=None, **kw):
        """One page (at most min(MaxKeys, PAGE) keys) with S3's paging fields: IsTruncated + NextContinuationToken;
        the request's own token is echoed back as ContinuationToken."""
        self._pt("list>", Prefix)
        ks = [k for k in sorted(self.o) if k.startswith(Prefix)]
        if ContinuationToken:
            ks = [k for k in ks if k > ContinuationToken]
        n = max(1, min(MaxKeys, self.PAGE))
        page, rest = ks[:n], ks[n:]
        out = {"KeyCount": len(page), "IsTruncated": bool(rest), "Prefix": Prefix}
        if ContinuationToken:
            out["ContinuationToken"] = ContinuationToken
        if page:
            out["Contents"] = [{"Key": k, "Size": len(self.o[k][0]), "LastModified": self.o[k][2]} for k in page]
        if rest:
            out["NextContinuationToken"] = page[-1]
        return out

    def get_paginator(self, name):
        assert name == "list_objects_v2"
        outer = self

        class P:
            def paginate(self, Bucket, Prefix="", **kw):
                outer._pt("list>", Prefix)
                ks = [k for k in sorted(outer.o) if k.startswith(Prefix)]
                if not ks:
                    yield {"KeyCount": 0}
                    return
                for i in range(0, len(ks), 2):
                    if i:
                        outer._pt("list>", Prefix)  # each further page is its own request
                        ks2 = [k for k in sorted(outer.o) if k.startswith(Prefix)]
                    yield {"Contents": [{"Key": k, "Size": len(outer.o[k][0]), "LastModified": outer.o[k][2]}
                                        for k in ks[i:i + 2] if k in outer.o]}

        return P()

    # harness-side
    def keys(self):
        return sorted(self.o)

    def data(self, key):
        return self.o[key][0]

    def snapshot(self):
        return {k: v[0] for k, v in self.o.items()}
