"""MemStore: a ~60-line in-memory StorageBackend (object granularity).  Used where the OS / S3 layer is
irrelevant to the property.  JSON documents are kept as (deep-copied) dicts so symbolic ints survive."""
import copy
import io
from typing import Any, Dict, List

from datashard.storage_backend import CASConflictError, StorageBackend


class NullLock:
    def __init__(self):
        self.held = False

    def acquire(self):
        self.held = True
        return True

    def release(self):
        self.held = False

    def is_held(self):
        return self.held


class MemStore(StorageBackend):
    def __init__(self, cas=False, atomic=True, now=None):
        self.files: Dict[str, Any] = {}
        self.mtime: Dict[str, Any] = {}
        self.ver: Dict[str, int] = {}
        self.cas = cas
        self.atomic = atomic
        self.now = now or (lambda: 0.0)
        self.log: List[tuple] = []
        self.hook = None  # hook(op, path) called before every operation

    def _n(self, p):
        return p.lstrip("/")

    def _pt(self, op, p):
        self.log.append((op, p))
        if self.hook is not None:
            self.hook(op, p)

    def read_file(self, path):
        p = self._n(path)
        self._pt("read", p)
        if p not in self.files:
            raise FileNotFoundError(p)
        return self.files[p]

    def open_file(self, path):
        data = self.read_file(path)
        return io.BytesIO(data)

    def open_seekable(self, path):
        return self.open_file(path)

    def write_file(self, path, content):
        p = self._n(path)
        self._pt("write", p)
        self.files[p] = content
        self.ver[p] = self.ver.get(p, 0) + 1
        self.mtime[p] = self.now()

    def read_json(self, path):
        return copy.deepcopy(self.read_file(path))

    def write_json(self, path, data):
        self.write_file(path, copy.deepcopy(data))

    def exists(self, path):
        p = self._n(path)
        self._pt("exists", p)
        return p in self.files

    def list_files(self, prefix):
        self._pt("list", prefix)
        pre = self._n(prefix).rstrip("/") + "/"
        return [k for k in sorted(self.files) if k.startswith(pre)]

    def delete_file(self, path):
        p = self._n(path)
        self._pt("delete", p)
        self.files.pop(p, None)

    def makedirs(self, path, exist_ok=True):
        pass

    def get_size(self, path):
        return len(self.files[self._n(path)])

    def get_modified_time(self, path):
        p = self._n(path)
        self._pt("stat", p)
        if p not in self.files:
            raise FileNotFoundError(p)
        return self.mtime.get(p, 0.0)

    def create_lock(self, path, timeout=30.0):
        return NullLock()

    @property
    def supports_cas(self):
        return self.cas

    @property
    def atomic_write_failures(self):
        return self.atomic

    def read_file_with_etag(self, path):
        data = self.read_file(path)
        return data, str(self.ver[self._n(path)])

    def write_file_cas(self, path, content, etag):
        p = self._n(path)
        self._pt("cas", p)
        cur = str(self.ver[p]) if p in self.files else None
        if etag != cur:
            raise CASConflictError(p)
        self.files[p] = content
        self.ver[p] = self.ver.get(p, 0) + 1
        self.mtime[p] = self.now()
