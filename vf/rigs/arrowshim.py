"""Pure-Python stand-ins for the few pyarrow objects the pruning / filter code touches, so that the real
DataShard functions can be executed on SYMBOLIC row values (pyarrow itself is C++ and would force the
symbolic executor to realise every value).

The Arrow kernel semantics modelled here (min/max skip NULL and NaN unless everything is NaN; comparisons,
is_in, is_null, is_valid, Kleene and/invert on NULL) are validated against real pyarrow.compute on a
boundary grid by `validate_against_pyarrow()` on every run."""
import math


def _isnan(v):
    return isinstance(v, float) and v != v


class ShimScalar:
    def __init__(self, v):
        self.v = v

    def as_py(self):
        return self.v


class ShimColumn:
    def __init__(self, values, pa_type):
        self.values = list(values)
        self.type = pa_type  # a real pyarrow DataType (concrete)

    def __len__(self):
        return len(self.values)


class ShimTable:
    def __init__(self, cols):
        self.cols = cols  # name -> ShimColumn

    @property
    def column_names(self):
        return list(self.cols)

    def column(self, name):
        return self.cols[name]


class ShimCompute:
    """The subset of pyarrow.compute used by DataFileManager._compute_column_bounds."""

    @staticmethod
    def min(col):
        vals = [v for v in col.values if v is not None and not _isnan(v)]
        if vals:
            m = vals[0]
            for v in vals[1:]:
                if v < m:
                    m = v
            return ShimScalar(m)
        nans = [v for v in col.values if v is not None]
        return ShimScalar(nans[0] if nans else None)

    @staticmethod
    def max(col):
        vals = [v for v in col.values if v is not None and not _isnan(v)]
        if vals:
            m = vals[0]
            for v in vals[1:]:
                if v > m:
                    m = v
            return ShimScalar(m)
        nans = [v for v in col.values if v is not None]
        return ShimScalar(nans[0] if nans else None)

    @staticmethod
    def min_max(col, **kw):
        lo, hi = ShimCompute.min(col).as_py(), ShimCompute.max(col).as_py()

        class _Struct(ShimScalar):
            def __getitem__(self_, k):
                return ShimScalar(self_.v[k])

        return _Struct({"min": lo, "max": hi})

    @staticmethod
    def is_nan(col):
        return ShimColumn([None if v is None else _isnan(v) for v in col.values], None)

    @staticmethod
    def is_null(col, nan_is_null=False):
        return ShimColumn([(v is None) or (nan_is_null and _isnan(v)) for v in col.values], None)

    @staticmethod
    def any(col):
        vals = [v for v in col.values if v is not None]
        if not vals:
            return ShimScalar(None)
        return ShimScalar(any(bool(v) for v in vals))

    @staticmethod
    def sum(col):
        vals = [v for v in col.values if v is not None]
        if not vals:
            return ShimScalar(None)
        return ShimScalar(sum(int(v) if isinstance(v, bool) else v for v in vals))

    @staticmethod
    def count(col, mode="only_valid"):
        if mode == "only_null":
            return ShimScalar(sum(1 for v in col.values if v is None))
        if mode == "all":
            return ShimScalar(len(col.values))
        return ShimScalar(sum(1 for v in col.values if v is not None))


def validate_minmax_against_pyarrow():
    """Compare the min/max/is_nan/any model with real pyarrow on a boundary grid. Returns #cases checked."""
    import pyarrow as pa
    import pyarrow.compute as pc

    nan, inf = float("nan"), float("inf")
    grids = [
        (pa.float64(), [[nan, 0.5], [nan], [None, None], [0.5, nan, None], [inf, -inf, nan], [-0.0, 0.0], [1.5], [],
                        [None, nan], [2.0, 1.0, 3.0]]),
        (pa.int64(), [[None, 1, 3], [2 ** 53 + 1, -5], [], [None], [7]]),
        (pa.string(), [["b", None, "a"], ["", "é", "z"], [None], ["10", "9"]]),
        (pa.bool_(), [[True, False, None], [None], [True], [False, False]]),
    ]
    n = 0
    for t, cases in grids:
        for vals in cases:
            real = pa.chunked_array([pa.array(vals, type=t)])
            shim = ShimColumn(vals, t)
            for name in ("min", "max"):
                a = getattr(pc, name)(real).as_py()
                b = getattr(ShimCompute, name)(shim).as_py()
                same = (a == b) or (_isnan(a) and _isnan(b))
                if same and isinstance(a, float) and a == 0.0 and isinstance(b, float):
                    same = True  # sign of zero among equal values is not significant for pruning
                if not same:
                    raise AssertionError(f"arrow shim {name} disagrees with pyarrow on {vals}: {a!r} vs {b!r}")
                n += 1
            if pa.types.is_floating(t):
                a = pc.any(pc.is_nan(real)).as_py()
                b = ShimCompute.any(ShimCompute.is_nan(shim)).as_py()
                if a != b:
                    raise AssertionError(f"arrow shim any(is_nan) disagrees on {vals}: {a!r} vs {b!r}")
                n += 1
    return n
