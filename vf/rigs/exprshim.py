"""Mini-expression shim: stand-ins for the pyarrow.compute / pyarrow objects that datashard.filters builds, which can
be EVALUATED on a (symbolic) row.  Semantics are Arrow's: comparisons with NULL give NULL, `&` is Kleene AND, `~` is
NOT (NULL stays NULL), is_in(NULL) is false (the value set never holds NULL here), is_null / is_valid never give NULL;
a filter keeps a row only when the expression is TRUE.  Float comparisons are IEEE (NaN != x is true).
`validate_against_pyarrow()` compares every operator with real pyarrow.compute on a boundary grid on every run.

Plus a mini Table / ParquetFile / pyarrow module shim so that the real read paths of datashard.transaction.Table can
run over list-of-rows tables whose cell values are symbolic."""
import types


class Expr:
    def eval(self, row):
        raise NotImplementedError

    def _cmp(self, op, other):
        return Cmp(op, self, other if isinstance(other, Expr) else Lit(other))

    def __eq__(self, o):
        return self._cmp("==", o)

    def __ne__(self, o):
        return self._cmp("!=", o)

    def __lt__(self, o):
        return self._cmp("<", o)

    def __le__(self, o):
        return self._cmp("<=", o)

    def __gt__(self, o):
        return self._cmp(">", o)

    def __ge__(self, o):
        return self._cmp(">=", o)

    def __and__(self, o):
        return And(self, o)

    def __or__(self, o):
        return Or(self, o)

    def __invert__(self):
        return Not(self)

    def is_null(self, nan_is_null=False):
        return IsNull(self)

    def is_valid(self):
        return Not(IsNull(self))

    def isin(self, values):
        return IsIn(self, list(values))

    __hash__ = object.__hash__


class Field(Expr):
    def __init__(self, name):
        self.name = name

    def eval(self, row):
        return row[self.name]


class Lit(Expr):
    def __init__(self, v):
        self.v = v

    def eval(self, row):
        return self.v


class Cmp(Expr):
    def __init__(self, op, a, b):
        self.op, self.a, self.b = op, a, b

    def eval(self, row):
        x, y = self.a.eval(row), self.b.eval(row)
        if x is None or y is None:
            return None
        op = self.op
        if op == "==":
            return bool(x == y)
        if op == "!=":
            return bool(x != y)
        if op == "<":
            return bool(x < y)
        if op == "<=":
            return bool(x <= y)
        if op == ">":
            return bool(x > y)
        return bool(x >= y)


class And(Expr):
    def __init__(self, a, b):
        self.a, self.b = a, b

    def eval(self, row):
        x, y = self.a.eval(row), self.b.eval(row)
        if x is False or y is False:
            return False
        if x is None or y is None:
            return None
        return True


class Or(Expr):
    def __init__(self, a, b):
        self.a, self.b = a, b

    def eval(self, row):
        x, y = self.a.eval(row), self.b.eval(row)
        if x is True or y is True:
            return True
        if x is None or y is None:
            return None
        return False


class Not(Expr):
    def __init__(self, a):
        self.a = a

    def eval(self, row):
        x = self.a.eval(row)
        return None if x is None else (not x)


class IsNull(Expr):
    def __init__(self, a):
        self.a = a

    def eval(self, row):
        return self.a.eval(row) is None


def _same_for_is_in(x, v):
    """Arrow's is_in matches by VALUE IDENTITY, not by ==: for floats NaN matches NaN and -0.0 does NOT match 0.0."""
    if isinstance(x, float) and isinstance(v, float):
        if x != x or v != v:
            return (x != x) and (v != v)
        if x == 0.0 and v == 0.0:
            return _neg_zero(x) == _neg_zero(v)
    return bool(x == v)


def _neg_zero(z):
    # sign of a float zero without math.copysign (keeps symbolic executors happy): 1/z is -inf for -0.0
    return str(z).startswith("-")


class IsIn(Expr):
    def __init__(self, a, values):
        self.a, self.values = a, values

    def eval(self, row):
        x = self.a.eval(row)
        if x is None:
            return False
        for v in self.values:
            if v is not None and _same_for_is_in(x, v):
                return True
        return False


class ShimArray:
    def __init__(self, values, type=None):
        self.values = list(values)


class PcShim:
    Expression = Expr

    @staticmethod
    def field(name):
        return Field(name)

    @staticmethod
    def scalar(v):
        return Lit(v)

    @staticmethod
    def is_in(field, value_set=None, **kw):
        return IsIn(field, value_set.values if isinstance(value_set, ShimArray) else list(value_set))


class PaShim:
    @staticmethod
    def array(values, type=None):
        return ShimArray(values, type)


def keeps(expr, row):
    """Arrow filter semantics: keep iff the expression evaluates to TRUE."""
    return expr.eval(row) is True


# ------------------------------------------------------------------------------------------- mini tables
class MiniTable:
    def __init__(self, rows, columns=None):
        self.rows = [dict(r) for r in rows]
        self.columns = list(columns) if columns is not None else (list(rows[0]) if rows else [])

    @property
    def num_rows(self):
        return len(self.rows)

    @property
    def column_names(self):
        return list(self.columns)

    @property
    def schema(self):
        return tuple(self.columns)

    def filter(self, expr):
        return MiniTable([r for r in self.rows if keeps(expr, r)], self.columns)

    def select(self, columns):
        for c in columns:
            if c not in self.columns:
                raise KeyError(f"no match for FieldRef {c}")
        return MiniTable([{c: r[c] for c in columns} for r in self.rows], columns)

    def to_pylist(self):
        return [dict(r) for r in self.rows]

    def to_batches(self, max_chunksize=None):
        return [self]


class MiniParquetFile:
    def __init__(self, table):
        self.table = table

    def iter_batches(self, batch_size=65536, columns=None):
        t = self.table if columns is None else self.table.select(columns)
        for i in range(0, len(t.rows), batch_size):
            yield MiniTable(t.rows[i:i + batch_size], t.columns)

    @property
    def schema_arrow(self):
        return self.table.schema


class MiniArrow:
    """registry: raw file bytes -> MiniTable; builds shim modules for `import pyarrow as pa; import pyarrow.parquet as pq`."""

    def __init__(self):
        self.by_raw = {}

    def register(self, raw, table):
        self.by_raw[bytes(raw)] = table

    def _load(self, src):
        raw = src.getvalue() if hasattr(src, "getvalue") else src.read()
        return self.by_raw[bytes(raw)]

    def modules(self, real_pa):
        outer = self
        pq = types.ModuleType("pyarrow.parquet")

        def read_table(src, columns=None, filters=None, **kw):
            t = outer._load(src)
            if filters is not None:
                t = t.filter(filters)  # push-down == filter-then-project (pyarrow's own equivalence is outside the claim)
            if columns is not None:
                t = t.select(columns)
            return t

        pq.read_table = read_table
        pq.ParquetFile = lambda src, **kw: MiniParquetFile(outer._load(src))
        pa = types.ModuleType("pyarrow")

        def concat_tables(tables, **kw):
            tables = list(tables)
            cols = tables[0].columns
            for t in tables[1:]:
                if t.columns != cols:
                    raise ValueError("Schema at index was different")
            return MiniTable([r for t in tables for r in t.rows], cols)

        class _T:
            @staticmethod
            def from_batches(batches, schema=None):
                batches = list(batches)
                return MiniTable([r for b in batches for r in b.rows], batches[0].columns)

        pa.concat_tables = concat_tables
        pa.Table = _T
        pa.parquet = pq
        pa.compute = PcShim
        pa.array = PaShim.array
        pa.__getattr__ = lambda k: getattr(real_pa, k)
        return pa, pq


def validate_against_pyarrow():
    """Every shim operator vs real pyarrow.compute on a boundary grid (1-row tables). Returns #cases."""
    import pyarrow as pa
    import pyarrow.compute as pc

    nan, inf = float("nan"), float("inf")
    grids = [(pa.float64(), [None, nan, -inf, -0.0, 0.0, 0.5, inf]), (pa.int64(), [None, -1, 0, 1, 2 ** 53 + 1]),
             (pa.string(), [None, "", "a", "b", "é"]), (pa.bool_(), [None, True, False])]
    n = 0
    for typ, vals in grids:
        for x in vals:
            t = pa.table({"c": pa.array([x], type=typ)})
            row = {"c": x}
            lits = [v for v in vals if v is not None]
            for v in lits:
                ops = ["==", "!=", "<", "<=", ">", ">="] if typ != pa.bool_() else ["==", "!="]
                for op in ops:
                    real = {"==": pc.field("c") == v, "!=": pc.field("c") != v, "<": pc.field("c") < v, "<=": pc.field("c") <= v,
                            ">": pc.field("c") > v, ">=": pc.field("c") >= v}[op]
                    shim = Cmp(op, Field("c"), Lit(v))
                    for wrap in ("plain", "not", "and_valid"):
                        r, s = real, shim
                        if wrap == "not":
                            r, s = ~real, Not(shim)
                        elif wrap == "and_valid":
                            r, s = (~real) & pc.field("c").is_valid(), And(Not(shim), Not(IsNull(Field("c"))))
                        got_real = t.filter(r).num_rows == 1
                        if got_real != keeps(s, row):
                            raise AssertionError(f"expression shim disagrees with pyarrow: {x!r} {op} {v!r} ({wrap}): {got_real} vs {keeps(s, row)}")
                        n += 1
                if not (isinstance(v, float) and v != v):
                    r = pc.is_in(pc.field("c"), value_set=pa.array([v], type=typ)) & pc.field("c").is_valid()
                    s = And(IsIn(Field("c"), [v]), Not(IsNull(Field("c"))))
                    if (t.filter(r).num_rows == 1) != keeps(s, row):
                        raise AssertionError(f"shim is_in disagrees: {x!r} in [{v!r}]")
                    r2 = (~pc.is_in(pc.field("c"), value_set=pa.array([v], type=typ))) & pc.field("c").is_valid()
                    s2 = And(Not(IsIn(Field("c"), [v])), Not(IsNull(Field("c"))))
                    if (t.filter(r2).num_rows == 1) != keeps(s2, row):
                        raise AssertionError(f"shim not is_in disagrees: {x!r} not in [{v!r}]")
                    n += 2
            for r, s in ((pc.field("c").is_null(), IsNull(Field("c"))), (pc.field("c").is_valid(), Not(IsNull(Field("c")))),
                         (pc.scalar(False), Lit(False))):
                if (t.filter(r).num_rows == 1) != keeps(s, row):
                    raise AssertionError(f"shim null test disagrees on {x!r}")
                n += 1
    return n
