"""Rig L: FakeOS - an in-memory POSIX model bound to the names os / tempfile / fcntl / shutil / open inside
the datashard modules' namespaces (the global `os` is untouched).  Everything above it is real DataShard code.

Modelled: inodes (files, directories, symlinks), hard path resolution with symlinks (realpath), open file
descriptions with flock semantics (conflict between descriptions, release on last close / process death),
user-space buffering of Python file objects (fdopen / open(..., 'wb'): bytes reach the "kernel" on flush/close),
per-file mtime from the virtual clock, and a DURABILITY SHADOW: per inode the content as of its last fsync,
per directory the entries as of its last directory fsync (power-loss model: everything else is dropped).

Every call is a `world.point(...)`: potential scheduling point, fault point and crash point.
"""
import errno as _errno
import io
import itertools
import os as _real_os
import posixpath
import types

from vf.rigs.world import actor
from vf.symx import SSecs, SYM_MARK


class Inode:
    __slots__ = ("kind", "data", "flushed", "mtime", "ino", "entries", "durable", "target", "nlink", "ever_synced")
    _ctr = itertools.count(100)

    def __init__(self, kind):
        self.kind = kind  # "file" | "dir" | "link"
        self.data = b""
        self.flushed = None  # content as of last fsync (None = never fsynced)
        self.mtime = 0
        self.ino = next(Inode._ctr)
        self.entries = {} if kind == "dir" else None
        self.durable = {} if kind == "dir" else None  # entries persisted by a directory fsync
        self.target = None
        self.nlink = 1
        self.ever_synced = False


class OFD:
    """open file description"""
    __slots__ = ("inode", "path", "flags", "pos", "owner", "id", "isdir")
    _ctr = itertools.count(1)

    def __init__(self, inode, path, flags, owner):
        self.inode = inode
        self.path = path
        self.flags = flags
        self.pos = 0
        self.owner = owner
        self.id = next(OFD._ctr)
        self.isdir = inode.kind == "dir"


def _chk(p):
    if isinstance(p, bytes):
        p = p.decode()
    if not isinstance(p, str):
        p = _real_os.fspath(p)
    if SYM_MARK in p:
        raise AssertionError(f"symbolic value leaked into a file name: {p!r}")
    return p


class StatResult:
    def __init__(self, ino):
        self.st_ino = ino.ino
        self.st_size = len(ino.data) if ino.kind == "file" else 0
        self.st_mtime = SSecs(ino.mtime)
        self.st_mode = {"file": 0o100644, "dir": 0o040755, "link": 0o120777}[ino.kind]
        self.st_nlink = ino.nlink
        self.st_dev = 1


class DirEntry:
    def __init__(self, fos, dirpath, name, ino):
        self.name = name
        self.path = posixpath.join(dirpath, name)
        self._fos = fos
        self._ino = ino

    def _res(self, follow):
        if self._ino.kind == "link" and follow:
            return self._fos._lookup(self.path, follow=True)
        return self._ino

    def is_dir(self, follow_symlinks=True):
        r = self._res(follow_symlinks)
        return r is not None and r.kind == "dir"

    def is_file(self, follow_symlinks=True):
        r = self._res(follow_symlinks)
        return r is not None and r.kind == "file"

    def is_symlink(self):
        return self._ino.kind == "link"

    def stat(self, follow_symlinks=True):
        r = self._res(follow_symlinks)
        if r is None:
            raise FileNotFoundError(_errno.ENOENT, "dangling", self.path)
        return StatResult(r)

    def inode(self):
        return self._ino.ino

    def __fspath__(self):
        return self.path


class FakeFile(io.RawIOBase):
    """Python-level file object over a FakeOS descriptor with a user-space write buffer."""

    def __init__(self, fos, fd, mode, name, buffering=True):
        self._fos = fos
        self._fd = fd
        self.mode = mode
        self.name = name
        self._buf = bytearray()
        self._closed = False
        self._text = "b" not in mode

    def fileno(self):
        return self._fd

    def writable(self):
        return any(c in self.mode for c in "wa+x")

    def readable(self):
        return "r" in self.mode or "+" in self.mode

    def seekable(self):
        return True

    def write(self, data):
        if self._text and isinstance(data, str):
            data = data.encode("utf-8")
        self._buf += bytes(data)
        if len(self._buf) >= 8192:
            self.flush()
        return len(data)

    def flush(self):
        if self._buf:
            b = bytes(self._buf)
            self._buf = bytearray()
            self._fos.write(self._fd, b)

    def read(self, n=-1):
        self.flush()
        d = self._fos.read(self._fd, n)
        return d.decode("utf-8") if self._text else d

    def readinto(self, b):
        d = self._fos.read(self._fd, len(b))
        b[:len(d)] = d
        return len(d)

    def readall(self):
        return self._fos.read(self._fd, -1)

    def seek(self, off, whence=0):
        self.flush()
        return self._fos.lseek(self._fd, off, whence)

    def tell(self):
        return self._fos.lseek(self._fd, 0, 1) + len(self._buf)

    def close(self):
        if self._closed:
            return
        self._closed = True
        try:
            self.flush()
        finally:
            self._fos.close(self._fd)

    @property
    def closed(self):
        return self._closed

    def __enter__(self):
        return self

    def __exit__(self, *a):
        self.close()

    def __del__(self):
        pass


_GLOBAL_FD = itertools.count(1000)  # fd numbers are unique across FakeOS instances: a stale descriptor held by an
#                                      object of an earlier path (e.g. FileLock.__del__) can never alias a live one


class FakeOS:
    O_RDONLY = 0
    O_WRONLY = 1
    O_RDWR = 2
    O_CREAT = 64
    O_EXCL = 128
    O_TRUNC = 512
    O_APPEND = 1024
    O_DIRECTORY = 65536
    O_CLOEXEC = 524288
    SEEK_SET, SEEK_CUR, SEEK_END = 0, 1, 2
    pardir = ".."
    curdir = "."
    sep = "/"
    altsep = None
    linesep = "\n"
    name = "posix"
    devnull = "/dev/null"
    error = OSError
    PathLike = _real_os.PathLike
    F_OK, R_OK, W_OK, X_OK = 0, 4, 2, 1

    def __init__(self, world):
        self.world = world
        self.root = Inode("dir")
        self.fds = {}
        self.next_fd = _GLOBAL_FD
        self.tmpctr = itertools.count(1)
        self.cwd = "/cwd"
        self.flocks = {}  # ino -> (ofd id, owner)
        self.path = _Path(self)
        self.environ = _real_os.environ
        self._mk("/cwd")
        self._mk("/tmp")
        self.after_rename = []  # harness hooks fn(fos, src, dst) called right after a rename took effect
        self.access_log = []  # (op, canonical path): content reads / writes / deletes / renames / directory listings
        self.fsync_log = []  # (step, kind, path)
        self.rename_log = []

    # ------------------------------------------------------------------ helpers
    def _pt(self, label, **info):
        self.world.point(label, **info)

    def _now(self):
        return self.world.clock.peek()

    def _abs(self, p):
        p = _chk(p)
        if not p.startswith("/"):
            p = posixpath.join(self.cwd, p)
        return p

    def _resolve(self, p, follow_last=True):
        """-> (canonical_path, inode|None, parent_inode|None, name).  Resolves symlinks component-wise;
        missing components are kept lexically (like non-strict os.path.realpath)."""
        from collections import deque
        p = self._abs(p)
        parts = deque(x for x in p.split("/") if x not in ("", "."))
        comps = []  # (name, inode|None)
        hops = 0
        while parts:
            x = parts.popleft()
            if x == "..":
                if comps:
                    comps.pop()
                continue
            parent = comps[-1][1] if comps else self.root
            if parent is None or parent.kind != "dir":
                comps.append((x, None))
                continue
            ent = parent.entries.get(x)
            if ent is None:
                comps.append((x, None))
                continue
            if ent.kind == "link" and (follow_last or parts):
                hops += 1
                if hops > 16:
                    raise OSError(_errno.ELOOP, "Too many levels of symbolic links", p)
                tgt = ent.target
                if tgt.startswith("/"):
                    comps = []
                parts.extendleft(reversed([y for y in tgt.split("/") if y not in ("", ".")]))
                continue
            comps.append((x, ent))
        canon = "/" + "/".join(n for n, _ in comps)
        if not comps:
            return "/", self.root, None, ""
        ino = comps[-1][1]
        parent = comps[-2][1] if len(comps) >= 2 else self.root
        return canon, ino, parent, comps[-1][0]

    def _lookup(self, p, follow=True):
        return self._resolve(p, follow)[1]

    def _mk(self, p):
        p = self._abs(p)
        cur = self.root
        for x in [y for y in p.split("/") if y]:
            nxt = cur.entries.get(x)
            if nxt is None:
                nxt = Inode("dir")
                nxt.mtime = self._now()
                cur.entries[x] = nxt
                cur.durable[x] = nxt  # harness-created scaffolding is durable
            cur = nxt
        return cur

    # ------------------------------------------------------------------ harness-side construction
    def mkdir_durable(self, p):
        return self._mk(p)

    def put_file(self, p, data, durable=True, mtime=None):
        d, b = posixpath.split(self._abs(p))
        parent = self._mk(d)
        ino = Inode("file")
        ino.data = bytes(data)
        ino.mtime = self._now() if mtime is None else mtime
        if durable:
            ino.flushed = ino.data
            parent.durable[b] = ino
        parent.entries[b] = ino
        return ino

    def put_symlink(self, p, target):
        d, b = posixpath.split(self._abs(p))
        parent = self._mk(d)
        ino = Inode("link")
        ino.target = target
        parent.entries[b] = ino
        parent.durable[b] = ino
        return ino

    # ------------------------------------------------------------------ process-level
    def getenv(self, k, d=None):
        return _real_os.getenv(k, d)

    def getpid(self):
        return 4242

    def cpu_count(self):
        return 2

    def fspath(self, p):
        return _real_os.fspath(p)

    def getcwd(self):
        return self.cwd

    def kill_process(self, owner):
        """Process death: the kernel closes its descriptors (releasing flocks)."""
        for fd, ofd in list(self.fds.items()):
            if ofd.owner == owner:
                self._drop_fd(fd)

    def _drop_fd(self, fd):
        ofd = self.fds.pop(fd)
        held = self.flocks.get(ofd.inode.ino)
        if held is not None and held[0] == ofd.id:
            del self.flocks[ofd.inode.ino]

    # ------------------------------------------------------------------ syscalls
    def makedirs(self, p, mode=0o777, exist_ok=False):
        p = _chk(p)
        self._pt("makedirs", path=p)
        canon, ino, parent, name = self._resolve(p)
        if ino is not None:
            if ino.kind != "dir" or not exist_ok:
                raise FileExistsError(_errno.EEXIST, "File exists", p)
            return
        cur = self.root
        for x in [y for y in canon.split("/") if y]:
            nxt = cur.entries.get(x)
            if nxt is None:
                nxt = Inode("dir")
                nxt.mtime = self._now()
                cur.entries[x] = nxt
                cur.durable[x] = nxt  # model assumption: directory CREATION is durable at once (only file entries need a dir fsync)
            elif nxt.kind != "dir":
                raise NotADirectoryError(_errno.ENOTDIR, "Not a directory", p)
            cur = nxt

    def mkdir(self, p, mode=0o777):
        p = _chk(p)
        self._pt("mkdir", path=p)
        canon, ino, parent, name = self._resolve(p)
        if ino is not None:
            raise FileExistsError(_errno.EEXIST, "File exists", p)
        if parent is None:
            raise FileNotFoundError(_errno.ENOENT, "No such directory", p)
        d = Inode("dir")
        d.mtime = self._now()
        parent.entries[name] = d
        parent.durable[name] = d

    def open(self, p, flags, mode=0o777, dir_fd=None):
        p = _chk(p)
        self._pt("open", path=p, flags=flags)
        canon, ino, parent, name = self._resolve(p)
        if not self.world.quiet:
            self.access_log.append(("open", canon))
        if ino is None:
            if not flags & self.O_CREAT:
                raise FileNotFoundError(_errno.ENOENT, "No such file or directory", p)
            if parent is None:
                raise FileNotFoundError(_errno.ENOENT, "No such directory", p)
            ino = Inode("file")
            ino.mtime = self._now()
            parent.entries[name] = ino
        else:
            if flags & self.O_EXCL and flags & self.O_CREAT:
                raise FileExistsError(_errno.EEXIST, "File exists", p)
            if ino.kind == "dir" and (flags & 3) != self.O_RDONLY:
                raise IsADirectoryError(_errno.EISDIR, "Is a directory", p)
            if flags & self.O_TRUNC and ino.kind == "file":
                ino.data = b""
                ino.mtime = self._now()
        fd = next(self.next_fd)
        ofd = OFD(ino, canon, flags, actor())
        if flags & self.O_APPEND:
            ofd.pos = len(ino.data)
        self.fds[fd] = ofd
        return fd

    def _ofd(self, fd):
        if fd not in self.fds:
            raise OSError(_errno.EBADF, "Bad file descriptor")
        return self.fds[fd]

    def write(self, fd, data):
        self._ofd(fd)  # stale / foreign descriptors fail before becoming a step
        self._pt("write", fd=fd, path=self.fds[fd].path if fd in self.fds else "?")
        ofd = self._ofd(fd)
        data = bytes(data)
        if ofd.flags & self.O_APPEND:
            ofd.pos = len(ofd.inode.data)
        cur = ofd.inode.data
        if ofd.pos > len(cur):
            cur = cur + b"\0" * (ofd.pos - len(cur))
        ofd.inode.data = cur[:ofd.pos] + data + cur[ofd.pos + len(data):]
        ofd.pos += len(data)
        ofd.inode.mtime = self._now()
        return len(data)

    def read(self, fd, n=-1):
        self._ofd(fd)  # stale / foreign descriptors fail before becoming a step
        self._pt("read", fd=fd, path=self.fds[fd].path if fd in self.fds else "?")
        ofd = self._ofd(fd)
        d = ofd.inode.data[ofd.pos:] if n is None or n < 0 else ofd.inode.data[ofd.pos:ofd.pos + n]
        ofd.pos += len(d)
        return d

    def lseek(self, fd, off, whence=0):
        ofd = self._ofd(fd)
        base = {0: 0, 1: ofd.pos, 2: len(ofd.inode.data)}[whence]
        if base + off < 0:
            raise OSError(_errno.EINVAL, "Invalid argument")
        ofd.pos = base + off
        return ofd.pos

    def fsync(self, fd):
        self._ofd(fd)  # stale / foreign descriptors fail before becoming a step
        self._pt("fsync", fd=fd, path=self.fds[fd].path if fd in self.fds else "?")
        ofd = self._ofd(fd)
        if ofd.isdir:
            ofd.inode.durable = dict(ofd.inode.entries)
            self.fsync_log.append((self.world.step, "dir", ofd.path))
        else:
            ofd.inode.flushed = ofd.inode.data
            ofd.inode.ever_synced = True
            self.fsync_log.append((self.world.step, "file", ofd.path))

    fdatasync = fsync

    def close(self, fd):
        self._ofd(fd)  # stale / foreign descriptors fail before becoming a step
        try:
            self._pt("close", fd=fd, path=self.fds[fd].path if fd in self.fds else "?")
        except OSError:
            # Linux: a failing close() still releases the descriptor
            if fd in self.fds:
                self._drop_fd(fd)
            raise
        self._ofd(fd)
        self._drop_fd(fd)

    def fdopen(self, fd, mode="r", buffering=-1, **kw):
        ofd = self._ofd(fd)
        return FakeFile(self, fd, mode, ofd.path)

    def _rename(self, a, b, label):
        a, b = _chk(a), _chk(b)
        self._pt(label, path=b, src=a)
        ca, ia, pa_, na = self._resolve(a, follow_last=False)
        cb, ib, pb_, nb = self._resolve(b, follow_last=False)
        if not self.world.quiet:
            self.access_log.append(("rename-src", ca))
            self.access_log.append(("rename-dst", cb))
        if ia is None:
            raise FileNotFoundError(_errno.ENOENT, "No such file or directory", a)
        if pb_ is None:
            raise FileNotFoundError(_errno.ENOENT, "No such directory", b)
        if ib is not None and ib.kind == "dir" and ia.kind != "dir":
            raise IsADirectoryError(_errno.EISDIR, "Is a directory", b)
        del pa_.entries[na]
        pb_.entries[nb] = ia
        self.rename_log.append((self.world.step, ca, cb, actor()))
        for h in list(self.after_rename):
            h(self, ca, cb)

    def replace(self, a, b):
        self._rename(a, b, "replace")

    def rename(self, a, b):
        self._rename(a, b, "rename")

    def remove(self, p):
        p = _chk(p)
        self._pt("remove", path=p)
        canon, ino, parent, name = self._resolve(p, follow_last=False)
        if not self.world.quiet:
            self.access_log.append(("remove", canon))
        if ino is None:
            raise FileNotFoundError(_errno.ENOENT, "No such file or directory", p)
        if ino.kind == "dir":
            raise IsADirectoryError(_errno.EISDIR, "Is a directory", p)
        del parent.entries[name]

    unlink = remove

    def rmdir(self, p):
        p = _chk(p)
        self._pt("rmdir", path=p)
        canon, ino, parent, name = self._resolve(p, follow_last=False)
        if ino is None:
            raise FileNotFoundError(_errno.ENOENT, "No such file or directory", p)
        if ino.kind != "dir":
            raise NotADirectoryError(_errno.ENOTDIR, "Not a directory", p)
        if ino.entries:
            raise OSError(_errno.ENOTEMPTY, "Directory not empty", p)
        del parent.entries[name]

    def symlink(self, target, p):
        p = _chk(p)
        self._pt("symlink", path=p)
        canon, ino, parent, name = self._resolve(p, follow_last=False)
        if ino is not None:
            raise FileExistsError(_errno.EEXIST, "File exists", p)
        ln = Inode("link")
        ln.target = _chk(target)
        parent.entries[name] = ln

    def readlink(self, p):
        ino = self._lookup(_chk(p), follow=False)
        if ino is None or ino.kind != "link":
            raise OSError(_errno.EINVAL, "Invalid argument", p)
        return ino.target

    def link(self, a, b):
        a, b = _chk(a), _chk(b)
        self._pt("link", path=b, src=a)
        ia = self._lookup(a, follow=False)
        cb, ib, pb_, nb = self._resolve(b, follow_last=False)
        if ia is None:
            raise FileNotFoundError(_errno.ENOENT, "No such file", a)
        if ib is not None:
            raise FileExistsError(_errno.EEXIST, "File exists", b)
        pb_.entries[nb] = ia
        ia.nlink += 1

    def listdir(self, p="."):
        p = _chk(p)
        self._pt("listdir", path=p)
        ino = self._lookup(p)
        if not self.world.quiet:
            self.access_log.append(("list", self._resolve(p)[0]))
        if ino is None:
            raise FileNotFoundError(_errno.ENOENT, "No such directory", p)
        if ino.kind != "dir":
            raise NotADirectoryError(_errno.ENOTDIR, "Not a directory", p)
        return sorted(ino.entries)

    def scandir(self, p="."):
        p = _chk(p)
        self._pt("scandir", path=p)
        ino = self._lookup(p)
        if not self.world.quiet:
            self.access_log.append(("list", self._resolve(p)[0]))
        if ino is None:
            raise FileNotFoundError(_errno.ENOENT, "No such directory", p)
        if ino.kind != "dir":
            raise NotADirectoryError(_errno.ENOTDIR, "Not a directory", p)
        ents = [DirEntry(self, p, n, e) for n, e in sorted(ino.entries.items())]

        class _It(list):
            def __enter__(s):
                return s

            def __exit__(s, *a):
                return False

            def close(s):
                pass

        return _It(ents)

    def walk(self, top, topdown=True, onerror=None, followlinks=False):
        top = _chk(top)
        self._pt("walk", path=top)
        stack = [top]
        while stack:
            d = stack.pop()
            ino = self._lookup(d)
            if ino is None or ino.kind != "dir":
                continue
            if not self.world.quiet:
                self.access_log.append(("list", self._resolve(d)[0]))
            dn, fn = [], []
            for n, e in sorted(ino.entries.items()):
                k = e
                if e.kind == "link":
                    k = self._lookup(posixpath.join(d, n), follow=True)
                    if k is not None and k.kind == "dir":
                        dn.append(n)  # like os.walk: symlink to dir is listed in dirnames...
                        continue
                    fn.append(n)
                    continue
                (dn if e.kind == "dir" else fn).append(n)
            yield d, dn, fn
            for n in reversed(dn):
                e = ino.entries[n]
                if e.kind == "link" and not followlinks:
                    continue  # ...but not descended into
                stack.append(posixpath.join(d, n))

    def stat(self, p, follow_symlinks=True):
        p = _chk(p)
        self._pt("stat", path=p)
        ino = self._lookup(p, follow=follow_symlinks)
        if ino is None:
            raise FileNotFoundError(_errno.ENOENT, "No such file or directory", p)
        return StatResult(ino)

    def lstat(self, p):
        return self.stat(p, follow_symlinks=False)

    def fstat(self, fd):
        return StatResult(self._ofd(fd).inode)

    def access(self, p, mode):
        return self._lookup(_chk(p)) is not None

    def utime(self, p, times=None, ns=None):
        ino = self._lookup(_chk(p))
        if ino is None:
            raise FileNotFoundError(_errno.ENOENT, "No such file", p)
        if times is not None:
            ino.mtime = int(times[1] * 1000)
        else:
            ino.mtime = self._now()

    def chmod(self, p, mode):
        pass

    def truncate(self, p, length):
        self._pt("truncate", path=_chk(p))
        ino = self._lookup(p)
        ino.data = ino.data[:length]

    def ftruncate(self, fd, length):
        self._pt("ftruncate", fd=fd)
        ofd = self._ofd(fd)
        ofd.inode.data = ofd.inode.data[:length]

    # ------------------------------------------------------------------ flock
    LOCK_SH, LOCK_EX, LOCK_NB, LOCK_UN = 1, 2, 4, 8

    def flock(self, fd, op):
        self._ofd(fd)  # stale / foreign descriptors fail before becoming a step
        self._pt("flock", fd=fd, op=op, path=self.fds[fd].path if fd in self.fds else "?")
        ofd = self._ofd(fd)
        if op & self.LOCK_UN:
            held = self.flocks.get(ofd.inode.ino)
            if held is not None and held[0] == ofd.id:
                del self.flocks[ofd.inode.ino]
            return
        held = self.flocks.get(ofd.inode.ino)
        if held is not None and held[0] != ofd.id:
            if op & self.LOCK_NB:
                raise BlockingIOError(_errno.EAGAIN, "Resource temporarily unavailable")
            raise AssertionError("blocking flock on a held lock is not modelled")
        self.flocks[ofd.inode.ino] = (ofd.id, ofd.owner)

    def flock_holder(self, p):
        ino = self._lookup(p)
        if ino is None:
            return None
        h = self.flocks.get(ino.ino)
        return h[1] if h else None

    # ------------------------------------------------------------------ builtin open()
    def builtin_open(self, p, mode="r", buffering=-1, encoding=None, errors=None, newline=None, closefd=True, opener=None):
        if isinstance(p, int):
            return self.fdopen(p, mode)
        p = _chk(p)
        if "r" in mode and "+" not in mode:
            self._pt("open_r", path=p)
            ino = self._lookup(p)
            if not self.world.quiet:
                self.access_log.append(("read", self._resolve(p)[0]))
            if ino is None:
                raise FileNotFoundError(_errno.ENOENT, "No such file or directory", p)
            if ino.kind == "dir":
                raise IsADirectoryError(_errno.EISDIR, "Is a directory", p)
            data = ino.data
            if "b" in mode:
                return io.BytesIO(data)
            return io.StringIO(data.decode(encoding or "utf-8"))
        flags = self.O_CREAT
        if "w" in mode:
            flags |= self.O_WRONLY | self.O_TRUNC
        elif "a" in mode:
            flags |= self.O_WRONLY | self.O_APPEND
        elif "x" in mode:
            flags |= self.O_WRONLY | self.O_EXCL
        else:
            flags = self.O_RDWR
        fd = self.open(p, flags)
        return FakeFile(self, fd, mode, p)

    # ------------------------------------------------------------------ tempfile / shutil
    def mkstemp(self, suffix=None, prefix=None, dir=None, text=False):
        d = dir if dir is not None else "/tmp"
        name = posixpath.join(d, f"{prefix or 'tmp'}{next(self.tmpctr):06d}{suffix or ''}")
        fd = self.open(name, self.O_CREAT | self.O_EXCL | self.O_RDWR)
        return fd, name

    def NamedTemporaryFile(self, mode="w+b", buffering=-1, encoding=None, newline=None, suffix=None, prefix=None,
                           dir=None, delete=True, **kw):
        fd, name = self.mkstemp(suffix=suffix, prefix=prefix, dir=dir)
        f = FakeFile(self, fd, mode, name)
        if delete:
            orig_close = f.close

            def close():
                orig_close()
                try:
                    self.remove(name)
                except OSError:
                    pass

            f.close = close
        return f

    def gettempdir(self):
        return "/tmp"

    def disk_usage(self, p):
        return types.SimpleNamespace(total=10 ** 12, used=10 ** 9, free=10 ** 12 - 10 ** 9)

    def rmtree(self, p, ignore_errors=False, onerror=None):
        canon, ino, parent, name = self._resolve(_chk(p), follow_last=False)
        if ino is None:
            if ignore_errors:
                return
            raise FileNotFoundError(_errno.ENOENT, "No such directory", p)
        self._pt("rmtree", path=p)
        del parent.entries[name]

    def move(self, a, b):
        self._rename(a, b, "rename")

    def copyfile(self, a, b):
        data = self.builtin_open(a, "rb").read()
        with self.builtin_open(b, "wb") as f:
            f.write(data)
        return b

    # ------------------------------------------------------------------ views for oracles
    def _walk_tree(self, ino, path, out, durable):
        ents = ino.durable if durable else ino.entries
        for n, e in ents.items():
            p = posixpath.join(path, n)
            if e.kind == "dir":
                self._walk_tree(e, p, out, durable)
            elif e.kind == "file":
                out[p] = e
            else:
                out[p] = e

    def files(self, under="/"):
        """{canonical path: bytes} of all regular files currently visible (page-cache view)."""
        out = {}
        top = self._lookup(under)
        if top is None:
            return {}
        self._walk_tree(top, self._resolve(under)[0], out, durable=False)
        return {p: e.data for p, e in out.items() if e.kind == "file"}

    def after_power_loss(self, under="/"):
        """{path: bytes} surviving a power loss NOW: directory entries as of the last directory fsync,
        file content as of the last file fsync (never-fsynced files survive as empty)."""
        out = {}
        top = self._lookup(under)
        if top is None:
            return {}
        self._walk_tree(top, self._resolve(under)[0], out, durable=True)
        return {p: (e.flushed if e.flushed is not None else b"") for p, e in out.items() if e.kind == "file"}

    def power_loss(self):
        """Power is lost NOW: every directory falls back to its persisted entries, every file to its flushed
        content (never-fsynced files become empty); all descriptors and locks vanish."""
        def rec(d):
            d.entries = dict(d.durable)
            for n, e in list(d.entries.items()):
                if e.kind == "dir":
                    rec(e)
                elif e.kind == "file":
                    e.data = e.flushed if e.flushed is not None else b""
        rec(self.root)
        self.fds.clear()
        self.flocks.clear()

    def inode_of(self, p):
        return self._lookup(p)


class _Path:
    def __init__(s, o):
        s.o = o

    join = staticmethod(posixpath.join)
    dirname = staticmethod(posixpath.dirname)
    basename = staticmethod(posixpath.basename)
    isabs = staticmethod(posixpath.isabs)
    commonpath = staticmethod(posixpath.commonpath)
    commonprefix = staticmethod(posixpath.commonprefix)
    split = staticmethod(posixpath.split)
    splitext = staticmethod(posixpath.splitext)
    normpath = staticmethod(posixpath.normpath)
    normcase = staticmethod(posixpath.normcase)
    sep = "/"
    pardir = ".."
    curdir = "."

    def expanduser(s, p):
        return p

    def abspath(s, p):
        return posixpath.normpath(s.o._abs(p))

    def relpath(s, p, start=None):
        start = s.o.cwd if start is None else s.o._abs(start)
        return posixpath.relpath(s.o._abs(p), start)

    def realpath(s, p, strict=False):
        return s.o._resolve(_chk(p))[0]

    def exists(s, p):
        p = _chk(p)
        try:
            s.o._pt("stat", path=p)
        except OSError:
            return False  # like os.path.exists: a failing stat() reads as "does not exist"
        return s.o._lookup(p) is not None

    def lexists(s, p):
        p = _chk(p)
        try:
            s.o._pt("stat", path=p)
        except OSError:
            return False
        return s.o._lookup(p, follow=False) is not None

    # like their os.path originals these are stat() calls (a fault point) whose every OSError reads as "no"
    def isfile(s, p):
        p = _chk(p)
        try:
            s.o._pt("stat", path=p)
        except OSError:
            return False
        e = s.o._lookup(p)
        return e is not None and e.kind == "file"

    def isdir(s, p):
        p = _chk(p)
        try:
            s.o._pt("stat", path=p)
        except OSError:
            return False
        e = s.o._lookup(p)
        return e is not None and e.kind == "dir"

    def islink(s, p):
        p = _chk(p)
        try:
            s.o._pt("stat", path=p)
        except OSError:
            return False
        e = s.o._lookup(p, follow=False)
        return e is not None and e.kind == "link"

    def getsize(s, p):
        p = _chk(p)
        s.o._pt("stat", path=p)
        e = s.o._lookup(p)
        if e is None:
            raise FileNotFoundError(_errno.ENOENT, "No such file or directory", p)
        return len(e.data) if e.kind == "file" else 0

    def getmtime(s, p):
        p = _chk(p)
        s.o._pt("stat", path=p)
        e = s.o._lookup(p)
        if e is None:
            raise FileNotFoundError(_errno.ENOENT, "No such file or directory", p)
        return SSecs(e.mtime)

    def samefile(s, a, b):
        return s.o._lookup(a) is s.o._lookup(b)
