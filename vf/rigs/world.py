"""World: per-path environment shared by the rigs - virtual clock, step counter, interposition points.

Every rig operation calls `world.point(label, **info)` BEFORE it takes effect (and FakeS3 a second time after
the server acted, label suffix '<').  A point is, in this order:
  1. a scheduling point (the baton may go to another actor, which then runs until ITS next point);
  2. a crash / fault point: registered callbacks may raise (Killed = the acting process is dead; an ordinary
     exception = a storage fault surfacing to the code under test).
Dead processes are frozen: every later point() from them raises Killed again, so `finally` / `except`
handlers of a crashed actor cannot touch durable state (that is what distinguishes a crash from an exception).
"""
import threading

from vf.symx import SInt, SSecs

BASE_MS = 1_700_000_000_000


class Killed(BaseException):
    """The acting process died at this step (crash / power loss)."""


def actor():
    return getattr(threading.current_thread(), "tid", "main")


class Clock:
    """One global virtual clock (no skew).  now_ms is an int or SInt; every reading advances it by a delta:
    symbolic (fresh d in [0, maxd]) while the symbolic budget lasts and the call site is enabled, else +1."""

    def __init__(self, sp, mode="tick", maxd=10, budget=12, sites=None):
        self.sp = sp
        self.mode = mode  # "sym" | "tick" | "frozen"
        self.maxd = maxd
        self.budget = budget
        self.sites = sites  # None = all sites symbolic in "sym" mode
        self.now_ms = BASE_MS
        self.n = 0

    def read(self, site="?"):
        """A clock reading.  "tick": +1 ms per reading (strictly increasing).  "frozen": never advances.
        "sym": readings at the enabled sites advance by a fresh symbolic delta in [0, maxd] (0 = coarse/frozen
        clock, equal millisecond timestamps); readings elsewhere do not advance time (any advance there is
        subsumed by the next symbolic delta); sleeps always advance."""
        if self.mode == "frozen":
            return self.now_ms
        if self.mode == "sym":
            if self.sites is None or site in self.sites:
                if self.budget > 0:
                    self.budget -= 1
                    self.n += 1
                    d = self.sp.fresh_int(f"dt{self.n}_{site}", 0, self.maxd)
                    self.now_ms = self.now_ms + d
                else:
                    self.now_ms = self.now_ms + 1
            return self.now_ms
        self.now_ms = self.now_ms + 1
        return self.now_ms

    def peek(self):
        return self.now_ms

    def advance(self, ms):
        """sleep(ms): advances by at least ms."""
        self.now_ms = self.now_ms + ms

    def advance_sym(self, name, lo, hi):
        d = self.sp.fresh_int(name, lo, hi)
        self.now_ms = self.now_ms + d
        return d

    def secs(self):
        return SSecs(self.now_ms)


class World:
    def __init__(self, sp, clock_mode="tick", **clock_kw):
        self.sp = sp
        self.clock = Clock(sp, clock_mode, **clock_kw)
        self.step = 0
        self.trace = []
        self.sched = None
        self.callbacks = []  # fn(world, label, info, actor) -> may raise
        self.dead = set()
        self.quiet = 0  # >0: points are not scheduling/fault points (harness-internal inspection)
        self.yield_filter = None  # fn(label, info) -> bool: which points are scheduling points (None = all)
        self.epoch = 0
        self.sleepers = {}

    def point(self, label, **info):
        a = actor()
        if a in self.dead:
            raise Killed()
        if self.quiet:
            return
        if self.sched is not None and a != "main" and (self.yield_filter is None or self.yield_filter(label, info)):
            self.sched.yield_point(a, label)
            if a in self.dead:
                raise Killed()
        self.step += 1
        if len(self.trace) < 4000:
            self.trace.append((self.step, a, label, info.get("path") or info.get("key") or ""))
        for cb in list(self.callbacks):
            cb(self, label, info, a)

    def kill(self, a):
        self.dead.add(a)

    class _Quiet:
        def __init__(self, w):
            self.w = w

        def __enter__(self):
            self.w.quiet += 1

        def __exit__(self, *a):
            self.w.quiet -= 1

    def inspect(self):
        """Context: rig operations inside are invisible (no step, no scheduling, no faults)."""
        return World._Quiet(self)


def crash_at(world, k, who=None, on_crash=None):
    """Register: the acting process dies when the step counter reaches k (k int or SInt).

    The decision `step == k` is a solver branch: with k symbolic every feasible crash index is explored."""
    state = {"fired": False}

    def cb(w, label, info, a):
        if state["fired"] or (who is not None and a != who):
            return
        if w.step == k:
            state["fired"] = True
            if on_crash is not None:
                on_crash(w, label, info, a)
            w.kill(a)
            raise Killed()

    world.callbacks.append(cb)
    return state


def fault_at(world, k, make_exc, who=None, when=None):
    """Register: the rig call at step k raises make_exc(label, info) instead of taking effect.
    `when(label, info)` filters which points are eligible (ineligible steps: no fault, still counted)."""
    state = {"fired": False, "label": None, "info": None}

    def cb(w, label, info, a):
        if state["fired"] or (who is not None and a != who):
            return
        if when is not None and not when(label, info):
            return  # ineligible point: decided concretely BEFORE the solver is asked, so it costs no branch
        if w.step == k:
            state["fired"] = True
            state["label"] = label
            state["info"] = dict(info)
            exc = make_exc(label, info)
            if exc is not None:
                raise exc

    world.callbacks.append(cb)
    return state
