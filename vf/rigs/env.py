"""Env: binds a World (+ FakeOS / FakeS3 / MemStore) into the datashard modules' namespaces for one path and
restores everything afterwards.  All interposition is by rebinding names at run time; /repo is never edited.

Stubs installed here (each is part of every claim made on top of them):
  clock      datetime.now / time.time / time.monotonic in the modules under test -> World.clock (one global
             virtual clock; symbolic deltas where the harness enables them); time.sleep advances it and is a
             scheduling point (poll loops are compressed: a sleeper is woken by a state change or when nobody
             else can run)
  ids        uuid.uuid4 -> deterministic, pairwise distinct values; random.uniform(a,b) -> a
  data plane pq.ParquetWriter -> writer that buffers real Arrow batches, encodes them with real pyarrow and writes
             the bytes through the rig WITHOUT flushing (what the real one does); reads parse real Parquet bytes
  json       in storage_backend only: a codec that keeps symbolic ints symbolic (placeholder tokens)
  locks      threading.RLock in metadata_manager / transaction -> scheduler-aware re-entrant lock
  executor   concurrent.futures.ThreadPoolExecutor -> synchronous executor (workers run in the calling actor)
"""
import hashlib
import io
import itertools
import json as _json
import logging
import sys
import threading
import types

import pyarrow as pa
import pyarrow.parquet as _pq

import botocore.exceptions  # noqa: F401  (pre-import: nothing may be first-imported while sys.modules is patched)
import concurrent.futures  # noqa: F401
import fastavro  # noqa: F401
import pyarrow.compute  # noqa: F401
import pyarrow.dataset  # noqa: F401
import pyarrow.fs  # noqa: F401
import boto3  # noqa: F401
import botocore.session  # noqa: F401

import datashard.data_operations as dops
import datashard.disk_utils as du
import datashard.file_lock as fl
import datashard.file_manager as fm
import datashard.garbage_collector as gcm
import datashard.integrity as integ
import datashard.lock_provider as lp
import datashard.metadata_manager as mm
import datashard.s3_consistency as s3c
import datashard.snapshot_manager as sm
import datashard.storage_backend as sb
import datashard.transaction as txm

from vf.rigs.fakeos import FakeOS
from vf.rigs.fakes3 import FakeS3, Instant
from vf.rigs.world import World, actor
from vf.sched import SchedEvent, SchedLock, SchedRLock
from vf.symx import FloatShadow, IntShadow, SInt, SSecs, smax

_MISSING = object()
_real_time = sys.modules["time"]
_real_random = sys.modules["random"]
_real_datetime = sys.modules["datetime"]


# ---------------------------------------------------------------------------------------------- clock shims
class _DTMeta0(type):
    def __instancecheck__(cls, o):
        return isinstance(o, _real_datetime.datetime)


class _TS:
    """datetime-like value returned by datetime.now(): only .timestamp() and subtraction are used."""

    def __init__(self, ms):
        self.ms = ms

    def timestamp(self):
        return SSecs(self.ms)

    def __sub__(self, o):
        return SSecs(self.ms - o.ms)

    def isoformat(self, *a, **k):
        return "2023-11-14T00:00:00"


def make_datetime_shim(world, site):  # noqa: C901
    real = _real_datetime.datetime

    class DT(metaclass=_DTMeta0):
        @staticmethod
        def now(tz=None):
            return _TS(world.clock.read(site))

        utcnow = now
        fromtimestamp = staticmethod(real.fromtimestamp)
        fromisoformat = staticmethod(real.fromisoformat)
        strptime = staticmethod(real.strptime)
        min = real.min
        max = real.max

        def __new__(cls, *a, **k):
            return real(*a, **k)

    return DT


class _DTMeta(type):
    def __instancecheck__(cls, o):
        return isinstance(o, _real_datetime.datetime)


def make_name_clock():
    """Concrete strictly increasing clock for file NAMES (manifest_<us>_..): never symbolic.  Still answers
    isinstance(x, datetime) / fromisoformat like the real class (file_manager uses both for bound encoding)."""
    real = _real_datetime.datetime
    state = {"n": 1_700_000_000_000_000}

    class NameDT(metaclass=_DTMeta):
        @staticmethod
        def now(tz=None):
            state["n"] += 1
            n = state["n"]

            class V:
                def timestamp(s):
                    return n / 1_000_000.0

            return V()

        fromtimestamp = staticmethod(real.fromtimestamp)
        fromisoformat = staticmethod(real.fromisoformat)

        def __new__(cls, *a, **k):
            return real(*a, **k)

    return NameDT


class TimeShim(types.ModuleType):
    def __init__(self, world, site="time", compress=True):
        super().__init__("time")
        self._w = world
        self._site = site
        # compress=True: the sleep belongs to a POLL loop (lock acquisition): waking without any state change is
        # pointless, so the sleeper is descheduled until something changed or nobody else can run.
        # compress=False: a pure back-off sleep (commit retry, S3 retry): it ends by time alone, so the sleeper
        # stays runnable (the sleep is just a scheduling point).
        self._compress = compress

    def __getattr__(self, k):
        return getattr(_real_time, k)

    def time(self):
        return SSecs(self._w.clock.read(self._site))

    def monotonic(self):
        return SSecs(self._w.clock.read(self._site))

    perf_counter = monotonic

    def sleep(self, x):
        w = self._w
        ms = x.ms if isinstance(x, SSecs) else int(round(float(x) * 1000))
        wake_at = w.clock.peek() + ms
        a = actor()
        sc = w.sched
        if sc is not None and a != "main" and a not in w.dead:
            if self._compress:
                e0 = w.epoch
                st = {"forced": False}
                w.sleepers[a] = st
                sc.yield_point(a, "sleep", until=lambda: w.epoch != e0 or st["forced"])
                w.sleepers.pop(a, None)
            else:
                sc.yield_point(a, "sleep")
        w.clock.now_ms = smax(w.clock.peek(), wake_at)


class RandomShim(types.ModuleType):
    def __init__(self):
        super().__init__("random")

    def __getattr__(self, k):
        return getattr(_real_random, k)

    def uniform(self, a, b):
        return a

    def random(self):
        return 0.0


class DatetimeModShim(types.ModuleType):
    def __init__(self, world):
        super().__init__("datetime")
        self._w = world
        w = world
        real = _real_datetime.datetime

        class DT(metaclass=_DTMeta0):
            @staticmethod
            def now(tz=None):
                return Instant(w.clock.read("lockdt"))

            fromtimestamp = staticmethod(real.fromtimestamp)
            fromisoformat = staticmethod(real.fromisoformat)

            def __new__(cls, *a, **k):
                return real(*a, **k)

        self.datetime = DT

    def __getattr__(self, k):
        return getattr(_real_datetime, k)


# ---------------------------------------------------------------------------------------------- ids
class FakeUUID:
    def __init__(self, i):
        self.int = i
        self.hex = "%032x" % i

    def __str__(self):
        h = self.hex
        return f"{h[:8]}-{h[8:12]}-{h[12:16]}-{h[16:20]}-{h[20:]}"


class FakeUuidMod:
    def __init__(self):
        self.ctr = itertools.count(1)

    def uuid4(self):
        return FakeUUID(int(hashlib.md5(str(next(self.ctr)).encode()).hexdigest(), 16))


# ---------------------------------------------------------------------------------------------- json keeping SInt
class SymJson:
    """json stand-in for storage_backend: symbolic ints are serialised as {"__sym__": k} and restored on load."""

    def __init__(self):
        self.tab = []

    def dumps(self, obj, **kw):
        def default(o):
            if isinstance(o, SInt):
                self.tab.append(o)
                return {"__sym__": len(self.tab) - 1}
            raise TypeError(f"not JSON serialisable: {type(o).__name__}")

        return _json.dumps(obj, default=default, **kw)

    def loads(self, s, **kw):
        def hook(d):
            if len(d) == 1 and "__sym__" in d:
                return self.tab[d["__sym__"]]
            return d

        return _json.loads(s, object_hook=hook, **kw)

    JSONDecodeError = _json.JSONDecodeError

    def __getattr__(self, k):
        return getattr(_json, k)


# ---------------------------------------------------------------------------------------------- data plane
class StubParquetWriter:
    """pq.ParquetWriter replacement: real Arrow encoding, bytes written through the rig, NOT flushed."""
    env = None

    def __init__(self, where, schema, compression=None, filesystem=None, **kw):
        self.where = where
        self.schema = schema
        self.batches = []
        self.filesystem = filesystem
        self.closed = False
        e = StubParquetWriter.env
        if filesystem is None and e.fos is not None:
            # the real writer opens (creates/truncates) the file at construction
            fd = e.fos.open(where, e.fos.O_WRONLY | e.fos.O_CREAT | e.fos.O_TRUNC)
            e.fos.close(fd)

    def write_batch(self, b):
        self.batches.append(b)

    def write_table(self, t):
        self.batches.extend(t.to_batches())

    def close(self):
        if self.closed:
            return
        self.closed = True
        buf = io.BytesIO()
        t = pa.Table.from_batches(self.batches, schema=self.schema) if self.batches else self.schema.empty_table()
        _pq.write_table(t, buf)
        raw = buf.getvalue()
        e = StubParquetWriter.env
        if self.filesystem is not None:
            bucket, _, key = self.where.partition("/")
            e.s3.put_object(Bucket=bucket, Key=key, Body=raw)
        else:
            fd = e.fos.open(self.where, e.fos.O_WRONLY)
            e.fos.write(fd, raw)
            e.fos.close(fd)  # page cache only: durability is DataFileWriter.close()'s job

    def __enter__(self):
        return self

    def __exit__(self, *a):
        self.close()


class PqShim(types.ModuleType):
    def __init__(self):
        super().__init__("pyarrow.parquet")
        self.ParquetWriter = StubParquetWriter

    def __getattr__(self, k):
        return getattr(_pq, k)


class SyncExecutor:
    def __init__(self, max_workers=None, **kw):
        pass

    def map(self, fn, *its):
        return [fn(*a) for a in zip(*its)]

    def submit(self, fn, *a, **k):
        import concurrent.futures as cf
        f = cf.Future()
        try:
            f.set_result(fn(*a, **k))
        except Exception as e:  # noqa
            f.set_exception(e)
        return f

    def shutdown(self, *a, **k):
        pass

    def __enter__(self):
        return self

    def __exit__(self, *a):
        return False


class _ThreadingShim(types.ModuleType):
    def __init__(self):
        super().__init__("threading")
        self.RLock = SchedRLock
        self.Lock = SchedLock
        self.Event = SchedEvent

    def __getattr__(self, k):
        return getattr(threading, k)


class GrantAllLock:
    """A lock provider giving no exclusion at all (C08): acquire always succeeds, is_held always true."""

    def acquire(self):
        return True

    def release(self):
        pass

    def is_held(self):
        return True


def _datashard_modules():
    import datashard as _ds
    pre = _ds.__name__ + "."
    return [m for n, m in list(sys.modules.items()) if m is not None and (n == _ds.__name__ or n.startswith(pre)) and isinstance(m, types.ModuleType)]


class Env:
    """Context manager: with Env(sp, rig='L') as e: t = e.table(schema=...)"""

    def __init__(self, sp, rig="L", root="/wh/tbl", clock="tick", clock_kw=None, s3_prefix="tbl", cas=True,
                 lock="real", bucket="bkt"):
        self.sp = sp
        self.rig = rig
        self.root = root
        self.s3_prefix = s3_prefix
        self.cas = cas
        self.lock = lock
        self.bucket = bucket
        self.world = World(sp, clock, **(clock_kw or {}))
        self.fos = None
        self.s3 = None
        self.mem = None
        self.saved = []
        self.uuidmod = FakeUuidMod()
        self.symjson = SymJson()

    # ---- binding helpers
    def _set(self, mod, name, val):
        d = mod.__dict__ if not isinstance(mod, dict) else mod
        self.saved.append((mod, name, d.get(name, _MISSING)))
        if isinstance(mod, dict):
            mod[name] = val
        else:
            setattr(mod, name, val)

    def __enter__(self):
        logging.disable(logging.CRITICAL)
        w = self.world
        SchedRLock.world = w
        StubParquetWriter.env = self
        ts = TimeShim(w)
        ts_backoff = TimeShim(w, compress=False)
        rs = RandomShim()
        thr = _ThreadingShim()
        # clocks
        self._set(mm, "datetime", make_datetime_shim(w, "mm"))
        self._set(sm, "datetime", make_datetime_shim(w, "sm"))
        self._set(fm, "datetime", make_name_clock())
        for m in (gcm, fl, lp):
            self._set(m, "time", ts)
        self._set(s3c, "time", ts_backoff)
        self._set(lp, "random", rs)
        import time as _rtime
        for m in _datashard_modules():
            if m.__dict__.get("time") is _rtime:
                self._set(m, "time", ts_backoff)   # a module that (newly) imports time: virtual clock, sleeps end by time
        self._set(sys.modules, "time", ts_backoff)  # Transaction.commit imports time inside the function (retry back-off)
        self._set(sys.modules, "random", rs)
        self._set(sys.modules, "datetime", DatetimeModShim(w))
        # ids
        for m in (mm, fm, txm, lp):
            self._set(m, "uuid", self.uuidmod)
        self._set(sys.modules, "uuid", self._uuid_module())
        # int()/float() on symbolic values
        for m in (mm, sm, txm):
            self._set(m, "int", IntShadow)
        self._set(sb, "float", FloatShadow)
        self._set(sb, "json", self.symjson)
        # thread locks + executor
        self._set(mm, "threading", thr)
        self._set(txm, "threading", thr)
        for m in _datashard_modules():
            if m.__dict__.get("threading") is threading and m is not lp:
                self._set(m, "threading", thr)   # a module that (newly) imports threading: cooperative Lock / RLock / Event
        import concurrent.futures as cf
        self._set(cf, "ThreadPoolExecutor", SyncExecutor)
        # data plane
        self._set(dops, "pq", PqShim())
        env = self
        if self.rig == "L":
            self.fos = FakeOS(w)
            self.hint_log = []  # (step, actor, pointer content) of every applied pointer rename

            def _hint_hook(fos_, src, dst):
                if dst.endswith("metadata.version-hint.text"):
                    ino = fos_._lookup(dst)
                    self.hint_log.append((w.step, actor(), ino.data if ino is not None else None))

            self.fos.after_rename.append(_hint_hook)
            self._bump_epoch_on(self.fos, ("write", "replace", "rename", "remove", "unlink", "makedirs"))
            # close / flock change what a lock poller can observe only when they RELEASE a lock
            _close, _flock = self.fos.close, self.fos.flock

            def close(fd):
                ofd = self.fos.fds.get(fd)
                held = ofd is not None and self.fos.flocks.get(ofd.inode.ino, (None,))[0] == ofd.id
                try:
                    return _close(fd)
                finally:
                    if held:
                        w.epoch += 1

            def flock(fd, op):
                try:
                    return _flock(fd, op)
                finally:
                    if op & self.fos.LOCK_UN:
                        w.epoch += 1

            self.fos.close, self.fos.flock = close, flock
            fos = self.fos
            tf = types.SimpleNamespace(mkstemp=fos.mkstemp, NamedTemporaryFile=fos.NamedTemporaryFile, gettempdir=fos.gettempdir)
            fc = types.SimpleNamespace(flock=fos.flock, LOCK_EX=fos.LOCK_EX, LOCK_NB=fos.LOCK_NB, LOCK_UN=fos.LOCK_UN,
                                       LOCK_SH=fos.LOCK_SH)
            sh = types.SimpleNamespace(disk_usage=fos.disk_usage, rmtree=fos.rmtree, move=fos.move, copyfile=fos.copyfile)
            for m in (sb, fl, du, dops):
                self._set(m, "os", fos)
            for m in (sb, dops, integ, fl, txm, mm, gcm, fm):
                self._set(m, "open", fos.builtin_open)
            self._set(sb, "tempfile", tf)
            self._set(dops, "tempfile", tf)
            self._set(fl, "fcntl", fc)
            self._set(fl, "FCNTL_AVAILABLE", True)
            self._set(du, "shutil", sh)
            self._set(sb, "create_storage_backend", lambda p: sb.LocalStorageBackend(p))
            # ... and whatever ELSE in the package holds a reference to these modules at this moment (a change under test may have added an
            # `import os` / `import shutil` to a module that did not have one): nothing in datashard may reach the real file system
            import os as _ros
            import shutil as _rsh
            import tempfile as _rtf
            import fcntl as _rfc
            for m in _datashard_modules():
                d = m.__dict__
                if d.get("os") is _ros:
                    self._set(m, "os", fos)
                if d.get("shutil") is _rsh:
                    self._set(m, "shutil", types.SimpleNamespace(disk_usage=fos.disk_usage, rmtree=fos.rmtree, move=fos.move, copyfile=fos.copyfile,
                                                                  copy=fos.copyfile, copy2=fos.copyfile))
                if d.get("tempfile") is _rtf:
                    self._set(m, "tempfile", tf)
                if d.get("fcntl") is _rfc:
                    self._set(m, "fcntl", fc)
                if "open" not in d:
                    self._set(m, "open", fos.builtin_open)
        elif self.rig == "S":
            self.s3 = FakeS3(w)
            # a lock poller can only observe APPLIED changes: failed conditional PUTs do not wake sleepers
            _put, _del = self.s3.put_object, self.s3.delete_object

            def put_object(**kw):
                n = len(self.s3.put_log)
                try:
                    return _put(**kw)
                finally:
                    if len(self.s3.put_log) != n:
                        w.epoch += 1

            def delete_object(**kw):
                try:
                    return _del(**kw)
                finally:
                    w.epoch += 1

            self.s3.put_object, self.s3.delete_object = put_object, delete_object
            self._set(sb, "create_storage_backend", lambda p: env.s3_backend(p))
            self._set(dops.DataFileManager, "_get_arrow_filesystem",
                      lambda self_: ("fake-arrow-s3fs" if isinstance(self_.storage, sb.S3StorageBackend) else None))
            # the heartbeat is not an OS thread here: harnesses that study lease renewal schedule
            # provider._renew_once() as an actor themselves (providers are collected in env.lock_providers)
            self.lock_providers = []

            def _start(self_):
                env.lock_providers.append(self_)

            self._set(lp.S3LockProviderBase, "_start_heartbeat", _start)
            self._set(lp.S3LockProviderBase, "_stop_heartbeat_thread", lambda self_: None)
        else:
            from vf.rigs.memstore import MemStore
            self.mem = MemStore(cas=self.cas, now=lambda: SSecs(w.clock.peek()))
            self._set(sb, "create_storage_backend", lambda p: env.mem)
            self._install_mem_dataplane()
        return self

    def _uuid_module(self):
        real = sys.modules["uuid"]
        um = self.uuidmod

        class U(types.ModuleType):
            def __getattr__(s, k):
                return getattr(real, k)

            def uuid4(s):
                return um.uuid4()

        return U("uuid")

    def _bump_epoch_on(self, obj, names):
        w = self.world
        for n in names:
            orig = getattr(obj, n)

            def wrap(*a, __o=orig, **k):
                try:
                    return __o(*a, **k)
                finally:
                    w.epoch += 1

            setattr(obj, n, wrap)
        if hasattr(obj, "unlink") and "remove" in names:
            obj.unlink = obj.remove

    def _install_mem_dataplane(self):
        from datashard.data_structures import DataFile, FileFormat

        def write_data_file(self_, file_path, records, iceberg_schema, file_format=FileFormat.PARQUET, partition_values=None):
            if records:
                self_.validate_records_strict(records, iceberg_schema)
            arrow_schema = self_.create_arrow_schema(iceberg_schema)
            lower = upper = None
            table = pa.Table.from_pylist(records, schema=arrow_schema)
            if records:
                lower, upper = self_._compute_column_bounds(table, iceberg_schema)
            buf = io.BytesIO()
            _pq.write_table(table, buf)
            raw = buf.getvalue()
            self_.storage.write_file(file_path, raw)
            return DataFile(file_path=file_path, file_format=file_format, partition_values=partition_values or {},
                            record_count=len(records), file_size_in_bytes=len(raw), lower_bounds=lower, upper_bounds=upper,
                            checksum=hashlib.sha256(raw).hexdigest())

        def open_parquet_source(self_, file_path):
            return io.BytesIO(self_.storage.read_file(file_path.lstrip("/")))

        self._set(dops.DataFileManager, "write_data_file", write_data_file)
        self._set(dops.DataFileManager, "open_parquet_source", open_parquet_source)

    def s3_backend(self, table_path=None, prefix=None):
        b = sb.S3StorageBackend.__new__(sb.S3StorageBackend)
        b.bucket = self.bucket
        b.prefix = (self.s3_prefix if prefix is None else prefix).rstrip("/")
        b.endpoint_url = None
        b.access_key = None
        b.secret_key = None
        b.region = "us-east-1"
        b.use_conditional_writes = self.cas
        b.s3 = self.s3
        if self.lock == "grantall":
            b.create_lock = lambda path, timeout=30.0: GrantAllLock()
        return b

    def __exit__(self, *a):
        # finalise objects of this path (FileLock.__del__ releases through the still-bound rig) invisibly
        import gc
        self.world.quiet += 1
        self.world.dead.clear()
        try:
            gc.collect()
        except BaseException:  # noqa
            pass
        for mod, name, val in reversed(self.saved):
            if isinstance(mod, dict):
                if val is _MISSING:
                    mod.pop(name, None)
                else:
                    mod[name] = val
            elif val is _MISSING:
                try:
                    delattr(mod, name)
                except AttributeError:
                    pass
            else:
                setattr(mod, name, val)
        self.saved = []
        SchedRLock.world = None
        return False

    # ---- conveniences
    def table(self, path=None, **kw):
        from datashard.transaction import Table
        t = Table(path or self.root, **kw)
        if self.lock == "grantall" and self.rig != "S":
            t.metadata_manager.lock_provider = GrantAllLock()
        return t

    class _As:
        def __init__(self, name):
            self.name = name

        def __enter__(self):
            th = threading.current_thread()
            self.old = getattr(th, "tid", _MISSING)
            th.tid = self.name

        def __exit__(self, *a):
            th = threading.current_thread()
            if self.old is _MISSING:
                try:
                    del th.tid
                except AttributeError:
                    pass
            else:
                th.tid = self.old

    def as_actor(self, name):
        """Run the enclosed code as process `name` (for crash harnesses without threads)."""
        return Env._As(name)

    def pointer_history(self):
        """[(step, actor, pointer bytes)] of every applied pointer write so far."""
        if self.rig == "L":
            return list(self.hint_log)
        if self.rig == "S":
            out = []
            for k, hist in self.s3.history.items():
                if k.endswith("metadata.version-hint.text"):
                    actors = {st: a for (st, key, a, b, af) in self.s3.put_log if key == k}
                    out += [(st, actors.get(st), body) for st, body in hist]
            return sorted(out, key=lambda x: x[0])
        return []

    def files(self):
        """{table-relative path: bytes} of the current storage state."""
        if self.rig == "L":
            root = self.fos._resolve(self.root)[0]
            return {p[len(root) + 1:]: d for p, d in self.fos.files(root).items()}
        if self.rig == "S":
            pre = self.s3_prefix.rstrip("/") + "/" if self.s3_prefix else ""
            return {k[len(pre):]: v for k, v in self.s3.snapshot().items() if k.startswith(pre)}
        return dict(self.mem.files)
