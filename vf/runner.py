"""Obligation runner: obligations -> worker processes -> evidence JSON, known findings, exit code.

An obligation is one harness x one fixed discrete configuration.  Each runs in its own OS process
(`python -m vf.worker`), up to NPROC in parallel, under a hard timeout.  Worker result (JSON):

  status   holds | violation | inconclusive | error
  engine   symx | crosshair
  paths, aborted, nontrivial, queries, solver_s, wall_s, exhaustive
  samples  [ ... actual explored cases ... ]
  cex      {harness, kwargs, model/args, message, signature}   (violation only; already replayed)
  functions  datashard functions executed by the harness

Exit codes of a check: 0 held (or only known findings), 1 new violation (replayed), 2 harness error /
inconclusive-where-a-verdict-is-required.
"""
import concurrent.futures as cf
import hashlib
import json
import os
import subprocess
import sys
import time
from dataclasses import dataclass, field

HERE = os.path.dirname(os.path.dirname(os.path.abspath(__file__)))
NPROC = int(os.environ.get("VERIF_NPROC", "16"))


@dataclass
class Ob:
    name: str
    fn: str  # "vf.props.c10:hint_total"
    kwargs: dict = field(default_factory=dict)
    engine: str = "symx"
    timeout: int = 300
    bounds: str = ""
    expect: str = "holds"  # "holds" | "violation" (must-fail twin / vacuity witness)
    weight: int = 1  # scheduling hint: heavier first
    allow_inconclusive: bool = False  # bug-hunting-only obligations


def _run_one(ob: Ob, tier: str, seed: int):
    req = {"fn": ob.fn, "kwargs": ob.kwargs, "engine": ob.engine, "timeout": ob.timeout, "tier": tier,
           "seed": seed, "name": ob.name, "expect": ob.expect}
    t0 = time.time()
    env = dict(os.environ)
    env["PYTHONPATH"] = HERE + os.pathsep + env.get("PYTHONPATH", "")
    env["PYTHONDONTWRITEBYTECODE"] = "1"
    env.setdefault("DATASHARD_STORAGE_TYPE", "local")
    env["PYTHONHASHSEED"] = "0"
    try:
        p = subprocess.run([sys.executable, "-m", "vf.worker"], input=json.dumps(req), capture_output=True,
                           text=True, timeout=ob.timeout + 60, env=env, cwd=HERE)
        out = p.stdout.strip().splitlines()
        res = None
        for line in reversed(out):
            if line.startswith("RESULT "):
                res = json.loads(line[7:])
                break
        if res is None:
            res = {"status": "error", "detail": f"worker produced no result (rc={p.returncode}): "
                                                + (p.stderr or "")[-1500:]}
    except subprocess.TimeoutExpired:
        res = {"status": "inconclusive", "detail": f"hard timeout after {ob.timeout + 60}s"}
    res.setdefault("wall_s", round(time.time() - t0, 2))
    res["name"] = ob.name
    res["bounds"] = ob.bounds
    res["expect"] = ob.expect
    res["engine"] = ob.engine
    return res


def load_known():
    path = os.path.join(HERE, "known_findings.json")
    if not os.path.exists(path):
        return []
    with open(path) as f:
        return json.load(f).get("findings", [])


def match_known(prop, cex, known):
    sig = cex.get("signature")
    for k in known:
        if k.get("property") != prop or k.get("status") != "open":
            continue
        if k.get("harness") and k["harness"] != cex.get("harness"):
            continue
        if k.get("signature") == sig or sig in (k.get("signatures") or []):
            return k
    return None


def run_check(prop: str, tier: str, obligations, level: str, explanation: str, assumptions, rule: str,
              trusted_base=None, seed: int = 0):
    t0 = time.time()
    obligations = sorted(obligations, key=lambda o: -o.weight)
    results = []
    with cf.ThreadPoolExecutor(max_workers=NPROC) as ex:
        futs = {ex.submit(_run_one, ob, tier, seed): ob for ob in obligations}
        for fu in cf.as_completed(futs):
            results.append(fu.result())
    results.sort(key=lambda r: r["name"])

    known = load_known()
    new_viol = []
    known_hits = []
    errors = []
    inconclusive = []
    discharged = 0
    for r, ob in ((r, next(o for o in obligations if o.name == r["name"])) for r in results):
        st = r.get("status")
        if ob.expect == "violation":
            # vacuity / must-fail witness: the harness must be able to fail
            if st == "violation":
                discharged += 1
                r["status"] = "witness-ok"
            elif st in ("holds",):
                errors.append(f"{r['name']}: must-fail twin did not fail (harness may be vacuous)")
            elif st == "inconclusive":
                inconclusive.append(r["name"])
            else:
                errors.append(f"{r['name']}: {r.get('detail', '')[:300]}")
            continue
        if st == "holds":
            discharged += 1
        elif st == "violation":
            for cex in r.get("cexs") or [r.get("cex")]:
                if not cex:
                    continue
                k = match_known(prop, cex, known)
                if k:
                    known_hits.append((k, cex))
                else:
                    new_viol.append(cex)
            if not [c for c in (r.get("cexs") or [r.get("cex")]) if c and not match_known(prop, c, known)]:
                # only known findings in this obligation: it is accounted for, not discharged
                pass
        elif st == "inconclusive":
            if ob.allow_inconclusive:
                r["status"] = "inconclusive-allowed"
            inconclusive.append(r["name"])
        else:
            errors.append(f"{r['name']}: {r.get('detail', '')[:300]}")

    # ---- replay files + output lines ----
    REPLAYS = os.environ.get("VERIF_REPLAY_DIR") or os.path.join(HERE, "replays")  # (developer override, used by seedtest.sh)
    os.makedirs(os.path.join(REPLAYS, prop), exist_ok=True)
    lines = []
    seen_known = set()
    for k, cex in known_hits:
        if k["id"] in seen_known:
            continue
        seen_known.add(k["id"])
        lines.append(f"KNOWN-FINDING: property={prop} {k['id']}: {k['summary']}")
    for cex in new_viol:
        h = hashlib.sha1(json.dumps(cex, sort_keys=True, default=str).encode()).hexdigest()[:12]
        path = os.path.join(REPLAYS, prop, f"{cex.get('harness', 'cex')}-{h}.json")
        with open(path, "w") as f:
            json.dump({"property": prop, **cex}, f, indent=1, default=str)
        lines.append(f"VIOLATION property={prop} replay={path}")
        lines.append(f"  harness={cex.get('harness')} signature={cex.get('signature')} :: {str(cex.get('message'))[:400]}")

    # ---- evidence ----
    tot = lambda k: sum((r.get(k) or 0) for r in results)
    samples = []
    for r in results:
        for s in (r.get("samples") or [])[:2]:
            samples.append({"obligation": r["name"], "case": s})
    samples = samples[:40] or [{"obligation": r["name"], "case": r.get("detail")} for r in results[:3]]
    functions = sorted({f for r in results for f in (r.get("functions") or [])})
    evaluations = int(tot("paths"))
    nontrivial = int(tot("nontrivial"))
    ev = {
        "property_id": prop,
        "tier": tier,
        "seed": seed,
        "level": level,
        "coverage": {
            "explanation": explanation,
            "evaluations": max(evaluations, 1),
            "distinct_nontrivial": nontrivial,
            "rule": rule,
            "samples": samples,
            "obligations": len(obligations),
            "discharged": discharged,
            "inconclusive": inconclusive,
            "exhaustive": bool(results) and all(r.get("exhaustive") for r in results
                                                if r.get("expect") == "holds" and r.get("status") != "inconclusive-allowed")
                          and not [n for n in inconclusive if not next(o for o in obligations if o.name == n).allow_inconclusive],
            "solver_queries": int(tot("queries")),
            "solver_seconds": round(tot("solver_s"), 2),
            "paths_aborted_infeasible": int(tot("aborted")),
            "concrete_crosschecks": int(tot("crosschecks")),
            "functions_encoded": functions,
            "trusted_base": trusted_base or [],
            "checker_cmd": f"./check {prop} --tier {tier}",
            "per_obligation": [
                {k: r.get(k) for k in ("name", "engine", "status", "bounds", "paths", "aborted", "nontrivial",
                                       "queries", "solver_s", "wall_s", "exhaustive", "detail", "expect")}
                for r in results],
            "known_findings_reported": sorted(seen_known),
            "datashard_source": _ds_path(),
        },
        "assumptions": assumptions,
        "wall_s": round(time.time() - t0, 2),
        "violations": len(new_viol),
    }
    EVID = os.environ.get("VERIF_EVIDENCE_DIR") or os.path.join(HERE, "evidence")  # (developer override, used by seedtest.sh)
    os.makedirs(EVID, exist_ok=True)
    with open(os.path.join(EVID, f"{prop}.json"), "w") as f:
        json.dump(ev, f, indent=1, default=str)

    for r in results:
        print(f"[{prop}] {r['name']:<40} {r.get('status'):<20} paths={r.get('paths')} q={r.get('queries')} "
              f"solver={r.get('solver_s')}s wall={r.get('wall_s')}s {'' if r.get('status') in ('holds', 'witness-ok') else (r.get('detail') or '')[:200]}")
    for ln in lines:
        print(ln)
    print(f"[{prop}] tier={tier} obligations={len(obligations)} discharged={discharged} inconclusive={len(inconclusive)} "
          f"known={len(seen_known)} new_violations={len(new_viol)} errors={len(errors)} wall={ev['wall_s']}s")
    if new_viol:
        return 1
    if errors:
        for e in errors:
            print(f"HARNESS-ERROR: {e}", file=sys.stderr)
        return 2
    hard_inconclusive = [n for n in inconclusive if not next(o for o in obligations if o.name == n).allow_inconclusive]
    if hard_inconclusive:
        print(f"INCONCLUSIVE (reported, not a pass for these obligations): {hard_inconclusive}", file=sys.stderr)
        # Inconclusive obligations are not violations: exit 0, evidence says discharged < obligations.
    return 0


def _ds_path():
    try:
        import datashard
        return os.path.dirname(datashard.__file__)
    except Exception as e:  # pragma: no cover
        return f"unavailable: {e}"
