"""Independent reader: pointer -> metadata JSON -> manifest list -> manifests (fastavro) -> Parquet, straight
from a {table-relative path: bytes} view of storage.  Shares no code with DataShard."""
import hashlib
import io
import json
import re

import fastavro
import pyarrow.parquet as pq

HINT = "metadata.version-hint.text"
_NAME = re.compile(r"^v(\d+)(?:-[0-9a-f]{8})?\.metadata\.json$")


class Unreadable(Exception):
    pass


def _get(files, rel):
    rel = rel.lstrip("/")
    if rel not in files:
        raise Unreadable(f"missing file {rel}")
    return files[rel]


def read_pointer(files):
    """-> metadata file name named by the pointer, or None"""
    b = files.get(HINT)
    if b is None:
        return None
    try:
        t = b.decode("utf-8").strip()
    except UnicodeDecodeError:
        return None
    if t.isascii() and t.isdigit():
        return f"v{t}.metadata.json"
    return t if _NAME.match(t) else None


def read_metadata(files, name, loads=json.loads):
    raw = _get(files, "metadata/" + name)
    if isinstance(raw, dict):
        return raw
    try:
        return loads(raw.decode("utf-8"))
    except Exception as e:
        raise Unreadable(f"metadata {name} unparseable: {e}")


def current_metadata(files, loads=json.loads):
    name = read_pointer(files)
    if name is None:
        return None, None
    return name, read_metadata(files, name, loads)


def snapshot_files(files, snap):
    """-> list of (data file path, entry dict) of a snapshot (dict from metadata JSON)."""
    out = []
    ml = _get(files, snap["manifest_list"])
    try:
        manifests = list(fastavro.reader(io.BytesIO(ml)))
    except Exception as e:
        raise Unreadable(f"manifest list {snap['manifest_list']} unparseable: {e}")
    seen = set()
    for m in manifests:
        mb = _get(files, m["manifest_path"])
        try:
            entries = list(fastavro.reader(io.BytesIO(mb)))
        except Exception as e:
            raise Unreadable(f"manifest {m['manifest_path']} unparseable: {e}")
        for e in entries:
            p = e["data_file"]["file_path"].lstrip("/")
            if p in seen:
                continue
            seen.add(p)
            out.append((p, e))
    return out


def snapshot_manifests(files, snap):
    ml = _get(files, snap["manifest_list"])
    return [m["manifest_path"].lstrip("/") for m in fastavro.reader(io.BytesIO(ml))]


def snapshot_rows(files, snap, key=None, verify=True):
    rows = []
    for p, e in snapshot_files(files, snap):
        raw = _get(files, p)
        if verify and e["data_file"].get("checksum") and hashlib.sha256(raw).hexdigest() != e["data_file"]["checksum"]:
            raise Unreadable(f"checksum mismatch {p}")
        try:
            t = pq.read_table(io.BytesIO(raw))
        except Exception as ex:
            raise Unreadable(f"data file {p} unparseable: {ex}")
        rows += t.to_pylist()
    if key:
        return sorted(r[key] for r in rows)
    return rows


def current_rows(files, key=None, loads=json.loads):
    """Rows of the current snapshot ([] for an empty table, None when there is no pointer)."""
    name, md = current_metadata(files, loads)
    if md is None:
        return None
    cur = md.get("current_snapshot_id")
    if cur in (None, -1):
        return []
    snaps = [s for s in md["snapshots"] if s["snapshot_id"] == cur]
    if not snaps:
        raise Unreadable(f"current snapshot {cur} not in snapshot list")
    return snapshot_rows(files, snaps[0], key)


def reachable(files, md):
    """All table-relative paths reachable from ANY retained snapshot of metadata dict `md`."""
    out = set()
    for s in md["snapshots"]:
        out.add(s["manifest_list"].lstrip("/"))
        for m in snapshot_manifests(files, s):
            out.add(m)
        for p, _ in snapshot_files(files, s):
            out.add(p)
    return out
