"""Reference semantics: SQL three-valued predicate evaluation over plain Python values.

A row value `x` (None = NULL) satisfies a condition only when the condition is TRUE (UNKNOWN counts as
not satisfied).  Comparisons and in / not_in never match NULL.  Float comparisons follow IEEE (NaN is
unordered: ==,<,<=,>,>= false, != true), which is what Arrow's comparison kernels do."""

OPS = ["==", "!=", "<", "<=", ">", ">=", "in", "not_in", "between", "is_null", "is_not_null"]


def cmp_true(op, x, v):
    if x is None or v is None:
        return False
    if op == "==":
        return x == v
    if op == "!=":
        return x != v
    if op == "<":
        return x < v
    if op == "<=":
        return x <= v
    if op == ">":
        return x > v
    if op == ">=":
        return x >= v
    raise ValueError(op)


def matches(op, x, v):
    """Does row value x satisfy (column op v)?"""
    if op == "is_null":
        return x is None
    if op == "is_not_null":
        return x is not None
    if x is None:
        return False
    if op == "in":
        return any(e is not None and x == e for e in v)
    if op == "not_in":
        return all(e is None or x != e for e in v)
    if op == "between":
        lo, hi = v
        return cmp_true(">=", x, lo) and cmp_true("<=", x, hi)
    return cmp_true(op, x, v)


def filter_value(op, v):
    """The user-facing filter-dict condition for (op, v)."""
    if op in ("is_null", "is_not_null"):
        return (op, True)
    return (op, v)
