"""Replay a recorded counterexample against the current /repo tree without any engine in the loop."""
import importlib
import json
import logging
import sys

logging.disable(logging.CRITICAL)


def replay_file(path):
    with open(path) as f:
        cex = json.load(f)
    mod_name, fn_name = cex["fn"].split(":")
    mod = importlib.import_module(mod_name)
    fn = getattr(mod, fn_name)
    kwargs = cex.get("kwargs") or {}
    if cex.get("engine") == "symx":
        from vf import symx
        ck = {k: v for k, v in kwargs.items() if not k.startswith("_")}
        v, _ = symx.run_concrete(lambda sp: fn(sp, **ck), cex["model"])
        if v is None:
            print(f"replay: property holds for this case on the current tree ({path})")
            return 0
        print(f"VIOLATION property={cex.get('property')} replay={path}")
        print("  " + v.msg)
        return 1
    for k, v in kwargs.items():
        if not k.startswith("_"):
            setattr(mod, k, v)
    ns = dict(vars(mod))
    ns.update(nan=float("nan"), inf=float("inf"))
    args = eval(f"(lambda *a, **k: (a, k))({cex['args']})", ns)
    try:
        r = fn(*args[0], **args[1])
        bad = r is not True
        detail = f"returned {r!r}"
    except Exception as e:  # noqa
        bad, detail = True, f"raised {type(e).__name__}: {e}"
    if bad:
        print(f"VIOLATION property={cex.get('property')} replay={path}")
        print("  " + detail)
        return 1
    print(f"replay: property holds for this case on the current tree ({path})")
    return 0
