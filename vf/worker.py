"""Worker: runs ONE obligation (read as JSON on stdin) and prints `RESULT <json>` on stdout."""
import importlib
import json
import logging
import os
import re
import sys
import time
import traceback

logging.disable(logging.CRITICAL)
try:
    import datashard as _ds
    REPO_SRC = os.path.dirname(os.path.abspath(_ds.__file__))
except Exception:  # pragma: no cover
    REPO_SRC = "/repo/src/datashard"


class FnCoverage:
    """Executed datashard functions via sys.monitoring (PY_START, disabled per code object after first hit)."""

    def __init__(self):
        self.seen = set()
        self.on = False

    def start(self):
        mon = getattr(sys, "monitoring", None)
        if mon is None:
            return
        try:
            self.tool = mon.COVERAGE_ID
            mon.use_tool_id(self.tool, "vf-fncov")
            mon.register_callback(self.tool, mon.events.PY_START, self._cb)
            mon.set_events(self.tool, mon.events.PY_START)
            self.on = True
        except Exception:
            self.on = False

    def _cb(self, code, off):
        fn = code.co_filename
        if fn.startswith(REPO_SRC):
            self.seen.add(f"{os.path.basename(fn)}:{code.co_qualname}")
        return sys.monitoring.DISABLE

    def stop(self):
        if not self.on:
            return
        mon = sys.monitoring
        try:
            mon.set_events(self.tool, 0)
            mon.register_callback(self.tool, mon.events.PY_START, None)
            mon.free_tool_id(self.tool)
        except Exception:
            pass
        self.on = False


def _load(fnref):
    mod, name = fnref.split(":")
    m = importlib.import_module(mod)
    return m, getattr(m, name)


def _default_sig(msg):
    return re.sub(r"[0-9]+", "N", str(msg))[:160]


def run_symx(req):
    from vf import symx

    mod, fn = _load(req["fn"])
    kwargs = req.get("kwargs") or {}
    budget = req.get("timeout", 300)

    call_kwargs = {k: v for k, v in kwargs.items() if not k.startswith("_")}

    def harness(sp):
        return fn(sp, **call_kwargs)

    cov = FnCoverage()
    cov.start()
    t0 = time.time()
    max_viol = kwargs.get("_max_violations", 12)
    # exploration (collect violations, stop after a cap)
    viols = []
    res = None

    res = symx.explore(harness, budget_s=budget * 0.8, sample_every=max(1, kwargs.get("_sample_every", 50)),
                       collect_all=True, max_violations=max_viol * 4)
    cov.stop()
    viols = res.pop("violations")
    out = {
        "paths": res["paths"], "aborted": res["aborted"], "nontrivial": res["nontrivial"], "queries": res["queries"],
        "solver_s": res["solver_s"], "exhaustive": res["exhaustive"], "functions": sorted(cov.seen),
        "samples": [{"model": s["model"], **({"notes": s["notes"]} if s["notes"] else {})} for s in res["samples"]],
        "requires": res["requires"], "reached": res["reached"],
    }
    # concrete cross-check of sampled passing paths (translator validation)
    cc = 0
    for s in res["samples"][:4]:
        v, _sp = symx.run_concrete(harness, s["model"])
        if v is not None:
            out.update(status="error", detail=f"concrete cross-check disagrees with symbolic run on model {s['model']}: {v.msg}")
            return out
        cc += 1
    out["crosschecks"] = cc
    if viols:
        cexs = []
        seen = set()
        for v in viols:
            sig = (v.info or {}).get("sig") or _default_sig(v.msg)
            if sig in seen:
                continue
            seen.add(sig)
            # replay concretely (no engine) before reporting
            rv, _sp = symx.run_concrete(harness, v.model)
            if rv is None:
                out.update(status="error", detail=f"counterexample did not reproduce in concrete replay: {v.msg} model={v.model}")
                return out
            cexs.append({"harness": req["name"], "fn": req["fn"], "kwargs": kwargs, "engine": "symx", "model": v.model,
                         "message": rv.msg, "signature": (rv.info or {}).get("sig") or _default_sig(rv.msg),
                         "notes": getattr(rv, "notes", {}), "replayed": True})
            if len(cexs) >= max_viol:
                break
        out.update(status="violation", cexs=cexs, cex=cexs[0], detail=cexs[0]["message"][:300])
        return out
    need = kwargs.get("_must_reach")
    if need and not set(need) <= set(res["reached"]):
        out.update(status="error", detail=f"harness never reached {sorted(set(need) - set(res['reached']))} (vacuous)")
        return out
    if res["paths"] == 0:
        out.update(status="error", detail="no feasible path (vacuous harness)")
        return out
    if not res["exhaustive"]:
        out.update(status="inconclusive", detail=f"decision tree not exhausted within {budget}s budget ({res['paths']} paths)")
        return out
    out.update(status="holds", detail="")
    return out


def run_crosshair(req):
    import z3

    Q = [0, 0.0]
    _orig = z3.Solver.check

    def check(self, *a):
        t = time.perf_counter()
        r = _orig(self, *a)
        Q[0] += 1
        Q[1] += time.perf_counter() - t
        return r

    z3.Solver.check = check
    from crosshair.core_and_libs import analyze_function, run_checkables
    from crosshair.options import AnalysisOptionSet
    from crosshair.statespace import MessageType

    mod, fn = _load(req["fn"])
    kwargs = req.get("kwargs") or {}
    for k, v in kwargs.items():
        if not k.startswith("_"):
            setattr(mod, k, v)  # discrete configuration parameters = module globals
    budget = req.get("timeout", 120)
    out = {"paths": 0, "aborted": 0, "nontrivial": 0}
    # concrete samples first (translator validation + function coverage, outside CrossHair tracing)
    cov = FnCoverage()
    samples = getattr(mod, fn.__name__ + "__samples", None)
    if callable(samples):
        samples = samples()
    cc = 0
    shown = []
    if samples:
        cov.start()
        try:
            for args in samples:
                ok = fn(*args)
                if ok is not True:
                    cov.stop()
                    # a concrete failing sample is a genuine counterexample (already 'replayed')
                    cex = {"harness": req["name"], "fn": req["fn"], "kwargs": kwargs, "engine": "concrete-sample",
                           "args": repr(tuple(args))[1:-1], "message": f"{fn.__name__}{tuple(args)!r} returned {ok!r}",
                           "signature": _sig_for(mod, fn, args), "replayed": True}
                    out.update(status="violation", cex=cex, cexs=[cex], detail=cex["message"], queries=0, solver_s=0.0,
                               exhaustive=False, functions=sorted(cov.seen))
                    return out
                cc += 1
                if len(shown) < 3:
                    shown.append({"args": repr(args), "result": True})
        finally:
            cov.stop()
    out["crosschecks"] = cc
    out["functions"] = sorted(cov.seen)
    opts = AnalysisOptionSet(per_condition_timeout=float(budget), per_path_timeout=float(kwargs.get("_per_path", max(5.0, budget / 4))),
                             report_all=True)
    t0 = time.time()
    msgs = list(run_checkables(analyze_function(fn, opts)))
    out.update(queries=Q[0], solver_s=round(Q[1], 3))
    # CrossHair does not expose a path count; z3 queries are the measured unit of work.
    out["paths"] = Q[0]
    out["nontrivial"] = Q[0]
    out["samples"] = shown
    states = [m.state for m in msgs]
    detail = "; ".join(f"{m.state.name}: {m.message[:160]}" for m in msgs)
    if not msgs:
        out.update(status="error", detail="CrossHair produced no verdict (no contract found?)", exhaustive=False)
        return out
    bad = [m for m in msgs if m.state in (MessageType.POST_FAIL, MessageType.EXEC_ERR)]
    if bad:
        m = bad[0]
        mm = re.search(r"calling (.*?)(?: \(which |$)", m.message, re.S)
        call = mm.group(1) if mm else None
        reproduced, rdetail = False, "no call expression in message"
        args_repr = None
        if call:
            ns = dict(vars(mod))
            ns.update(nan=float("nan"), inf=float("inf"))
            try:
                # evaluate argument list only, then call natively (no tracing)
                args_src = call[call.index("(") + 1: call.rindex(")")]
                args = eval(f"(lambda *a, **k: (a, k))({args_src})", ns)
                args_repr = args_src
                try:
                    r = fn(*args[0], **args[1])
                    reproduced = r is not True
                    rdetail = f"native call returned {r!r}"
                except Exception as e:  # noqa
                    reproduced = True
                    rdetail = f"native call raised {type(e).__name__}: {e}"
            except Exception as e:  # noqa
                rdetail = f"could not evaluate counterexample arguments: {e}"
        if not reproduced:
            out.update(status="error", detail=f"CrossHair counterexample did not reproduce natively ({rdetail}): {m.message[:300]}",
                       exhaustive=False)
            return out
        sig = None
        try:
            sig = _sig_for(mod, fn, args[0])
        except Exception:
            pass
        cex = {"harness": req["name"], "fn": req["fn"], "kwargs": kwargs, "engine": "crosshair", "args": args_repr,
               "message": f"{m.message[:400]} [{rdetail}]", "signature": sig or _default_sig(m.message), "replayed": True}
        out.update(status="violation", cex=cex, cexs=[cex], detail=cex["message"][:300], exhaustive=False)
        return out
    if all(s == MessageType.CONFIRMED for s in states):
        out.update(status="holds", detail="Confirmed over all paths", exhaustive=True)
        return out
    out.update(status="inconclusive", detail=detail[:400], exhaustive=False)
    return out


def _sig_for(mod, fn, args):
    f = getattr(mod, fn.__name__ + "__signature", None)
    if f is None:
        return None
    return f(*args)


def main():
    req = json.loads(sys.stdin.read())
    t0 = time.time()
    try:
        if req.get("engine") == "crosshair":
            res = run_crosshair(req)
        elif req.get("engine") == "native":
            mod, fn = _load(req["fn"])
            res = fn(**(req.get("kwargs") or {}))
        else:
            res = run_symx(req)
    except BaseException as e:  # noqa
        res = {"status": "error", "detail": f"{type(e).__name__}: {e}\n{traceback.format_exc()[-1800:]}"}
    res["wall_s"] = round(time.time() - t0, 2)
    sys.stdout.flush()
    print("RESULT " + json.dumps(res, default=str))


if __name__ == "__main__":
    main()
