"""CLI:  check <Cxx> [--tier quick|thorough] [--replay file]"""
import argparse
import importlib
import json
import os
import sys


def main():
    ap = argparse.ArgumentParser()
    ap.add_argument("prop")
    ap.add_argument("--tier", default=None)
    ap.add_argument("--replay", default=None)
    ap.add_argument("--only", default=None, help="run only obligations whose name contains this substring")
    a = ap.parse_args()
    tier = os.environ.get("VERIF_TIER") or a.tier or "quick"
    if tier not in ("quick", "thorough"):
        tier = "quick"
    seed = int(os.environ.get("VERIF_SEED", "0") or 0)
    prop = a.prop.upper()
    mod = importlib.import_module(f"vf.props.{prop.lower()}")
    if a.replay:
        from vf.replay import replay_file
        sys.exit(replay_file(a.replay))
    from vf.runner import run_check
    obs = mod.obligations(tier)
    if a.only:
        obs = [o for o in obs if a.only in o.name]
    rc = run_check(prop, tier, obs, level=getattr(mod, "LEVEL", "other"), explanation=mod.EXPLANATION,
                   assumptions=mod.ASSUMPTIONS, rule=mod.RULE, trusted_base=getattr(mod, "TRUSTED", []), seed=seed)
    sys.exit(rc)


if __name__ == "__main__":
    main()
