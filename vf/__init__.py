"""vf: solver-based checking of the real DataShard code (see /verif/DESIGN.md)."""
