#!/bin/bash
# developer tool: seedtest.sh <seed dir | patch.diff> <Cxx> [--only substr]
# Applies a seeded change to a SCRATCH WORKTREE of /repo HEAD (never to /repo itself), points the check at it through PYTHONPATH,
# runs the quick check with evidence / replays redirected to /tmp, removes the worktree.
P=$1; C=$2; shift 2; [ -d "$P" ] && { [ -f "$P/patch.rebased.diff" ] && P="$P/patch.rebased.diff" || P="$P/patch.diff"; }
WT=/tmp/seedtest_wt_$$
git -C /repo worktree add --detach $WT HEAD -q || exit 9
if ! git -C $WT apply --check "$P" 2>/dev/null; then echo "PATCH-DOES-NOT-APPLY $P"; git -C /repo worktree remove --force $WT; exit 8; fi
git -C $WT apply "$P"
cd /verif && PYTHONPATH=$WT/src VERIF_EVIDENCE_DIR=/tmp/seedtest_evidence VERIF_REPLAY_DIR=/tmp/seedtest_replays ./check $C --tier quick "$@" > /tmp/seedtest.$$.log 2>&1; rc=$?
git -C /repo worktree remove --force $WT
grep -E "VIOLATION|KNOWN|HARNESS-ERROR|tier=" /tmp/seedtest.$$.log | cut -c1-400 | head -8
echo "exit=$rc"; rm -f /tmp/seedtest.$$.log
