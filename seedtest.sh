#!/bin/bash
# developer tool: seedtest.sh <patch.diff> <Cxx> [--only substr] : apply a seeded change to /repo, run the quick check, undo.
P=$1; C=$2; shift 2; [ -d "$P" ] && P="$P/patch.rebased.diff"
cd /repo || exit 9
if ! git diff --quiet; then echo "repo dirty"; exit 9; fi
if ! git apply --check "$P" 2>/dev/null; then echo "PATCH-DOES-NOT-APPLY $P"; exit 8; fi
git apply "$P"
cd /verif && ./check $C --tier quick "$@" > /tmp/seedtest.$$.log 2>&1; rc=$?
git -C /repo reset --hard HEAD -q
grep -E "VIOLATION|KNOWN|HARNESS-ERROR|tier=" /tmp/seedtest.$$.log | cut -c1-400 | head -8
echo "exit=$rc"; rm -f /tmp/seedtest.$$.log
