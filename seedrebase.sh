#!/bin/bash
# developer tool: rebase a seed patch onto current /repo HEAD via 3-way apply; writes <dir>/patch.rebased.diff
D=$1
cd /repo || exit 9
git diff --quiet && git diff --cached --quiet || { echo "repo dirty"; exit 9; }
if git apply --check "$D/patch.diff" 2>/dev/null; then cp "$D/patch.diff" "$D/patch.rebased.diff"; echo "applies as is"; exit 0; fi
if git apply --3way "$D/patch.diff" >/dev/null 2>&1 && ! git diff --name-only --diff-filter=U | grep -q .; then
  git diff HEAD -- src > "$D/patch.rebased.diff"; git reset --hard HEAD -q; echo "rebased ok"; exit 0
fi
git reset --hard HEAD -q; echo "CONFLICT - manual rebase needed"; exit 1
