#!/usr/bin/env python3
"""developer tool: assemble /verif/seeded/<id>/ (patch.diff, demo.py, notes.md, meta.json) and seeded/README.md from the
sub-agents' kept changes (/tmp/seedkeep = round 1, /tmp/seedkeep2 = round 2), the re-verification on the final /repo HEAD
(verify.json written by seedverify.sh) and the check matrix (/tmp/seedmatrix.out [+ /tmp/seedmatrix.extra] written by
seedmatrix.sh / seedtest.sh).  Nothing here is used by a registered check."""
import json
import os
import re
import shutil
import subprocess
import sys

OUT = "/verif/seeded"
ROUNDS = [("/tmp/seedkeep", 1), ("/tmp/seedkeep2", 2), ("/tmp/seedkeep3", 3)]

DESC = {
    # round 1 descriptions are taken from the existing meta.json files; round 2:
    "C01-3": ("delete_snapshot retries a lost commit race with the stale, never rebuilt new metadata",
              "a commit lands between delete_snapshot's read and its commit"),
    "C01-4": ("snapshot id + sequence number allocated once per transaction and reused on OCC retries",
              "a writer loses a race once and commits on the retry"),
    "C02-3": ("a transaction with deletes and appends is committed as two snapshots",
              "a reader refreshes between the two commits (or the second commit fails)"),
    "C02-4": ("an unreadable version pointer falls through to 'scan for the newest metadata file'",
              "a read error on the pointer while an uncommitted higher-numbered metadata file is present"),
    "C03-3": ("new files are created in place (O_EXCL + write + fsync) instead of temp + rename",
              "process dies between the create and the end of the write of a metadata/manifest file"),
    "C03-4": ("_rollback(delete_files=False) no longer deactivates the transaction",
              "an interrupted / ambiguous commit followed by the context manager's or the caller's rollback"),
    "C04-3": ("rollback() made 'idempotent' re-runs _rollback on a transaction that kept its files deliberately",
              "ambiguous commit outcome (pointer was advanced) followed by an explicit rollback()"),
    "C04-4": ("create_snapshot wraps commit errors in RuntimeError, hiding AmbiguousCommitError from the transaction",
              "a fault after the pointer flip (ambiguous commit)"),
    "C05-3": ("in-flight marker payload carries the table-qualified path; collector maps it back only for its own spelling",
              "writer and collector open the table under different spellings of the same location"),
    "C05-4": ("S3 listing follows 'ContinuationToken' instead of 'NextContinuationToken': stops after the first page",
              "more objects under a prefix than one page holds"),
    "C06-3": ("data-file markers released as soon as the append manifest is written",
              "collection runs between the manifest write and the commit, data file older than grace"),
    "C06-4": ("conflict clean-up deletes the data files' markers too (relative path vs basename mix-up)",
              "writer loses a race once, collection runs during the retry"),
    "C07-3": ("shared age helper: a marker whose mtime cannot be read stops protecting its target",
              "get_modified_time fails on one live marker during a collection"),
    "C07-4": ("lenient snapshot parsing ('manifest_list' missing -> '') + collector skipping snapshots without a list",
              "a metadata file whose snapshot entry lost its manifest_list key"),
    "C08-3": ("pointer content and pointer ETag come from two different S3 requests (GET + HEAD)",
              "a rival commit lands between the GET and the HEAD"),
    "C08-4": ("S3 lock owner id is '<host>:<pid>' instead of a per-instance UUID",
              "two lock instances in one process (two handles) contend for the same table lock"),
    "C09-3": ("collector does not read a manifest list that an 'append' child 'covers'",
              "child was committed after a delete / replace that dropped files its parent still lists"),
    "C09-4": ("rollback of a cleanly failed commit deletes the carried-over manifests too",
              "a commit fails cleanly (lost race beyond retries / fault before the flip) on a table with prior snapshots"),
    "C10-3": ("CAS path: 'pointer names a missing file' collapses into 'pointer absent' (create-if-absent write)",
              "S3 with conditional writes, pointer naming a file that does not exist, then a commit"),
    "C10-4": ("only ConcurrentModificationException discards the new metadata file of a failed commit",
              "a commit fails cleanly for another reason (fence lost / transient error before the flip); pointer later damaged"),
    "C11-3": ("friendlier error message renders the rejected schema through the id-keyed Arrow-schema cache",
              "a rejected divergent-schema append followed by a normal append on the same handle"),
    "C11-4": ("NaN guard inspects pc.min_max's result (which skips NaN) instead of pc.is_nan",
              "a batch holding NaN together with finite values"),
    "C12-3": ("string bounds truncated to a 16-character prefix, upper bound too",
              "string values longer than 16 characters and a predicate between the prefix and the real maximum"),
    "C12-4": ("'no bounds for the column' treated as 'column is all NULL' -> file pruned",
              "a column whose bounds are deliberately absent (NaN, unsupported type, legacy file) filtered with a comparison"),
    "C13-3": ("string bounds truncated to a 32-character prefix, upper bound too",
              "string values longer than 32 characters"),
    "C13-4": ("schema-argument validation no longer compares field ids",
              "append with a schema argument that numbers the fields differently; bounds land under the wrong field id"),
    "C14-3": ("parallel scan passes the unresolved verify flag (None) to the readers",
              "parallel scan with default verification of a damaged data file"),
    "C14-4": ("manifest rewrite on partial delete drops the survivors' checksums",
              "a partial delete, then damage to a surviving data file"),
    "C15-3": ("snapshot id + sequence number cached across OCC retries",
              "a writer loses a race once and commits on the retry"),
    "C15-4": ("metadata-log trim drops one entry instead of slicing to the bound",
              "the configured bound is lowered on a table with a longer log"),
    "C16-3": ("data-file fsync errors swallowed by a shared fsync helper",
              "fsync of the data file's content fails (EIO)"),
    "C16-4": ("fsync runs before the user-space buffer is flushed in LocalStorageBackend.write_file",
              "power loss after the commit returns"),
    "C17-3": ("_resolve_path canonicalises the root only, the relative part lexically",
              "a symlink inside the table that points outside it"),
    "C17-4": ("commonpath -> commonprefix in the absolute-path branch of _get_arrow_path",
              "an absolute path into a sibling directory sharing the table root's name as prefix"),
    "C18-3": ("initialisation guard evaluated before the metadata lock is taken (local backend)",
              "two creators race; the loser's probe ran before the winner's commit"),
    "C18-4": ("init pointer write on CAS-S3 keyed to an ETag read after the guard",
              "two creators race on S3 with conditional writes"),
    "C19-3": ("FileLock.release unlinks the lock file after closing the descriptor",
              "three contenders: one releases while a second holds the old inode and a third creates a new one"),
    "C19-4": ("S3 lock release() deletes the lock object without checking ownership",
              "a holder whose lease was taken over releases"),
    "C20-3": ("S3RangeFile.readinto issues a range request at exactly end-of-object",
              "read at pos == size (incl. zero-byte objects)"),
    "C20-4": ("S3 list_files accumulates results across retries of a paged listing",
              "a transient error on a later page of a multi-page listing"),
    # round 3
    "C01-5": ("LocalLockProvider.release unlinks the lock file (flock is per inode: a waiter holding the old inode and a newcomer creating a new one both get the lock)",
              "three separate handles: one waits with the lock file open while the holder releases, a third creates the file anew"),
    "C01-6": ("last_updated_ms clamped with max() instead of bumped: the OCC version stamp is no longer unique",
              "coarse / frozen clock and a metadata-only commit between another committer's base read and its validation"),
    "C02-5": ("operations split once before the OCC retry loop + delete set consumed while scanning manifests",
              "a delete+append transaction loses one commit race: the retry publishes the append without the delete"),
    "C02-6": ("per-handle cache of the current file listing keyed by a snapshot id that is updated before the listing is read",
              "two reader threads sharing one warm handle (or a transient error while the first read notices the new snapshot)"),
    "C03-5": ("metadata scan uses search() on the whole path without '^': adopts the temp file of an interrupted metadata write",
              "process dies during table creation while the first metadata file's temp file exists"),
    "C03-6": ("a transaction that appends and expires commits in two pointer flips",
              "process dies (or a reader looks) between the two flips"),
    "C04-5": ("marker clean-up helper narrows 'except Exception' to 'except OSError'",
              "object storage: a marker delete fails with ClientError after the commit point -> rollback deletes committed files"),
    "C04-6": ("FileLock.release: try/finally around unlock + close became sequential calls",
              "the unlock call fails once: descriptor leaked, every later commit times out"),
    "C05-5": ("collector reads only manifests that ADD files; a delete-rewritten manifest (added=0, existing>0) is not read",
              "2-file append, delete one file, expire the old snapshot, collect"),
    "C05-6": ("manifest / manifest-list in-flight marker written AFTER the file instead of before",
              "a collection (grace 0) lands between the write and the marker of a live transaction"),
    "C06-5": ("collector loads the in-flight markers a second time just before deleting and uses only the fresh set",
              "a transaction with an old data file commits and clears its markers between the collector's metadata read and the second load"),
    "C06-6": ("a fresh marker whose target does not exist yet is swept as a rollback leftover",
              "collection A between marker write and data-file write, transaction idles past the grace period, collection B inside commit()"),
    "C07-5": ("LocalStorageBackend.list_files: os.stat guard replaced by os.path.isdir (swallows every OSError)",
              "non-ENOENT stat failure on metadata/inflight during a collection"),
    "C07-6": ("marker file named after the flattened relative path; the collector's name-based fallback no longer matches",
              "a marker whose payload cannot be read / parsed during a collection"),
    "C08-5": ("ownership fence moved ahead of the metadata-file write",
              "committer paused at its metadata PUT past its lease, lock taken over, rival has not flipped yet"),
    "C08-6": ("conditional pointer PUT retried; a 412 on the retry is treated as 'my first attempt landed'",
              "transient error on the first pointer PUT (nothing written) while a rival commits"),
    "C09-5": ("get_snapshot_by_timestamp uses max(key=timestamp): ties resolve to the earliest commit",
              "two retained snapshots with the same millisecond timestamp"),
    "C09-6": ("Transaction.begin() no longer resets _written_files / markers",
              "one Transaction object reused: first commit lands but is reported ambiguous / interrupted, second fails cleanly -> rollback deletes the first's files"),
    "C10-5": ("reader 'repairs' an unusable pointer with an unlocked, unconditional write of what its scan found",
              "pointer lost + a commit landing between the reader's listing and its repair"),
    "C10-6": ("recovery capped at the version number a well-formed but dangling pointer carries",
              "pointer naming a missing file with a version below the latest (legacy numeric '1', stale name)"),
    "C11-5": ("unknown-key check skipped when the record has as many keys as the schema has fields",
              "schema with an optional field, record with a misspelt key in its place"),
    "C11-6": ("'no bound for the filtered column' read as 'column all NULL' -> file pruned",
              "accepted batch holding a NaN (bounds withheld), later filtered scan on that column"),
    "C12-5": ("in/not_in value set de-duplicated with dict.fromkeys: 0.0 and -0.0 collapse",
              "float column holding a signed zero, IN list naming a zero"),
    "C12-6": ("bounds computed per 1000-record write batch and merged; a NaN batch's veto applies to that batch only",
              "one append of more than 1000 records with a NaN in one batch"),
    "C13-5": ("per-batch bound accumulation (same refactor as C12-6, by another author)",
              "one append > 1000 records, NaN batch whose finite values lie outside the other batches' range"),
    "C13-6": ("literal 'aligned' to the bound's type: datetime literal truncated to a date",
              "date column, datetime literal not at midnight, operators < and !="),
    "C14-5": ("lenient metadata parsing defaults current_snapshot_id to -1",
              "a flipped bit in the key name 'current_snapshot_id' of the current metadata file: table reported as empty"),
    "C14-6": ("manifest-list reader keeps the entries decoded before a mid-file decode error",
              "damage inside the record block of a manifest list with several entries"),
    "C15-5": ("file delete stops scanning manifests once every named path was found once",
              "the same data-file path registered by two commits, then delete_files([path])"),
    "C15-6": ("retention no longer pins the current snapshot",
              "retention count set and the committing writer's clock behind earlier snapshots' timestamps"),
    "C16-5": ("directory-fsync errors other than 'unsupported' are re-raised - after the rename already happened",
              "EIO on the directory fsync right after the pointer rename: treated as a clean failure, the named files are deleted"),
    "C16-6": ("directory fsyncs coalesced: a caller arriving while one is in flight waits for it and returns",
              "writer B renames its manifest list while writer A's directory fsync (issued before the rename) is finishing; B flips first"),
    "C17-5": ("path resolution memoised per backend object: the boundary check runs only the first time",
              "same handle, same path string, a component swapped to an outside symlink between two uses"),
    "C17-6": ("create_lock checks the lock's directory only and joins the file name lexically",
              ".locks/metadata.lock itself a (dangling) symlink leaving the root"),
    "C18-5": ("pointer self-repair after recovery by scanning (same idea as C10-5, by another author)",
              "pointer lost, local backend, opener's scan precedes a concurrent appender's commit"),
    "C18-6": ("schema-less appends resolve the schema from the handle's constructor argument instead of the persisted one",
              "two creators with different schemas; the loser appends without a schema argument"),
    "C19-5": ("FileLock keeps its descriptor across acquire / release",
              "an instance used once, then fork: children share one open file description, flock succeeds for all"),
    "C19-6": ("S3 lock age computed with timedelta.seconds instead of total_seconds()",
              "store clock ahead of the contender's: negative age wraps to ~86398 s -> immediate takeover of a live lock"),
    "C20-5": ("retry loop renumbered 1-based: one attempt fewer than the budget",
              "exactly max_retries consecutive transient errors followed by a success"),
    "C20-6": ("AccessDenied mapped to builtin PermissionError, which the permanent-error test does not recognise",
              "AccessDenied / 403 on a read-side request: retried (6 requests) or swallowed"),
}


def matrix():
    res = {}
    for f in ("/tmp/seedmatrix.out", "/tmp/seedmatrix3a.out", "/tmp/seedmatrix3b.out", "/tmp/seedmatrix.extra"):
        if not os.path.exists(f):
            continue
        for line in open(f):
            m = re.match(r"^(C\d\d-\d) (C\d\d) exit=(\d+)", line)
            if m:
                res.setdefault(m.group(1), {})[m.group(2)] = int(m.group(3))
            m = re.match(r"^(C\d\d-\d) INVALID-ON-HEAD", line)
            if m:
                res.setdefault(m.group(1), {})["_invalid"] = True
    return res


def main():
    mx = matrix()
    head = subprocess.run(["git", "-C", "/repo", "rev-parse", "--short", "HEAD"], capture_output=True, text=True).stdout.strip()
    rows, dropped = [], []
    for root, rnd in ROUNDS:
        for name in sorted(os.listdir(root)) if os.path.isdir(root) else []:
            d = os.path.join(root, name)
            if not re.match(r"^C\d\d-\d$", name) or not os.path.isdir(d):
                continue
            prop = name[:3]
            vj = os.path.join(d, "verify.json")
            ver = json.load(open(vj)) if os.path.exists(vj) else {}
            valid = ver.get("demo_exit_clean") == 0 and ver.get("demo_exit_patched") == 1 and "143 passed" in ver.get("tests_with_patch", "")
            if not valid or mx.get(name, {}).get("_invalid"):
                dropped.append((name, rnd, ver))
                if os.path.isdir(os.path.join(OUT, name)):
                    shutil.rmtree(os.path.join(OUT, name))
                continue
            old = {}
            om = os.path.join(OUT, name, "meta.json")
            if os.path.exists(om):
                old = json.load(open(om))
            change, needs = DESC.get(name, (old.get("change", ""), old.get("needs_to_manifest", "")))
            caught = sorted(c for c, rc in mx.get(name, {}).items() if not c.startswith("_") and rc == 1)
            missed = sorted(c for c, rc in mx.get(name, {}).items() if not c.startswith("_") and rc != 1)
            o = os.path.join(OUT, name)
            os.makedirs(o, exist_ok=True)
            patch = os.path.join(d, "patch.rebased.diff")
            shutil.copy(patch, os.path.join(o, "patch.diff"))
            for f in ("demo.py", "notes.md", "demo.orig.py"):
                if os.path.exists(os.path.join(d, f)):
                    shutil.copy(os.path.join(d, f), os.path.join(o, f))
            meta = {
                "seed": name, "round": rnd, "property": prop, "change": change, "needs_to_manifest": needs,
                "author": "independent sub-agent given only the property text and a scratch worktree",
                "verified": {
                    "how": "scratch worktree of /repo HEAD (seedverify.sh): git apply patch.diff; pytest (143 passed, the 7 baseline "
                           "pandas failures); demo.py exit status with / without the patch",
                    "repo_head": ver.get("repo_head", head), "final_repo_head": head, "tests_with_patch": ver.get("tests_with_patch", "").strip("= "),
                    "demo_exit_with_patch": ver.get("demo_exit_patched"), "demo_exit_without_patch": ver.get("demo_exit_clean"),
                },
                "caught_by_quick_check": caught, "not_caught_by_quick_check": missed,
                "how_checked": "seedtest.sh: scratch worktree of /repo HEAD + git apply patch.diff; PYTHONPATH=<worktree>/src ./check <Cxx> "
                               "--tier quick -> exit 1 + VIOLATION line; worktree removed",
            }
            json.dump(meta, open(om, "w"), indent=1)
            rows.append(meta)
    with open(os.path.join(OUT, "README.md"), "w") as f:
        f.write("# Seeded property-breaking changes\n\n"
                "Each directory holds one change written by an independent sub-agent that saw only the property text and a scratch\n"
                "worktree of /repo (nothing from /verif): `patch.diff` (applies to the /repo HEAD named in meta.json), `demo.py` (exit 1 with the\n"
                "patch, exit 0 without), `notes.md` (the agent's report) and `meta.json`.  Every change compiles, passes the pinned 143 tests and\n"
                "was re-verified by me in a scratch worktree.  Round 1 = before the checks were strengthened, round 2 = fresh agents afterwards.\n"
                "None of these changes is or ever was committed to /repo.\n\n"
                "| seed | round | change | needs | caught by quick check of | not caught by |\n|---|---|---|---|---|---|\n")
        for m in sorted(rows, key=lambda m: m["seed"]):
            f.write(f"| {m['seed']} | {m['round']} | {m['change']} | {m['needs_to_manifest']} | {', '.join(m['caught_by_quick_check']) or '-'} | "
                    f"{', '.join(m['not_caught_by_quick_check']) or '-'} |\n")
        f.write("\n## Changes not kept\n\n")
        for name, rnd, ver in dropped:
            f.write(f"- {name} (round {rnd}): not a valid seed on the final tree (demo clean={ver.get('demo_exit_clean')} patched={ver.get('demo_exit_patched')}; "
                    f"a later `fix:` commit neutralised it or the patch no longer applies)\n")
    print(f"kept {len(rows)}, dropped {[d[0] for d in dropped]}")
    own_missed = [m["seed"] for m in rows if m["property"] not in m["caught_by_quick_check"]]
    print("not caught by own property:", own_missed)


if __name__ == "__main__":
    sys.exit(main())
